"""Generic runner for one property check (DESIGN §2.3, §2.5, §2.6, §2.8a).

Flow: translators -> lake build (+ axiom audit) -> Go harness through `go test -overlay` ->
Lean driver on the same op lines -> diff of `obs` streams -> property oracles (`prop` lines of the
driver evaluated on implementation observations, `viol` lines of the harness) -> verdict/evidence.
"""
import fcntl
import hashlib
import json
import os
import re
import shutil
import subprocess
import sys
import time

from . import srcdigest

VERIF = os.path.dirname(os.path.dirname(os.path.abspath(__file__)))
REPO = os.environ.get("VERIF_REPO", "/repo")
LEAN = os.path.join(VERIF, "lean")
ACCEPTED_AXIOMS = {"propext", "Classical.choice", "Quot.sound"}
FORBIDDEN = re.compile(r"\bsorry\b|\badmit\b|^\s*axiom\s|native_decide|bv_decide|implemented_by|\bunsafe\s|maxHeartbeats\s+0\b")

GOENV = {
    "GOFLAGS": "-mod=mod",
    "GOPROXY": "off",
    "GOSUMDB": "off",
    "GOTOOLCHAIN": "local",
    "GONOSUMDB": "*",
    "GONOSUMCHECK": "1",
}


class TieBroken(Exception):
    """A translator / proof / correspondence no longer checks. `what` names it."""

    def __init__(self, what, detail=""):
        super().__init__(what)
        self.what = what
        self.detail = detail


class Harness:
    """One `go test` invocation with harness files injected by overlay."""

    def __init__(self, name, module, pkg, files, test, go="go", timeout_s=900, env=None, n=None,
                 model=None, driver=None, common=True, extra_args=None, race=False, mod_append=None):
        self.name = name
        self.module = module  # module directory relative to /repo, e.g. "service"
        self.pkg = pkg  # package dir relative to /repo, e.g. "service/internal/status"
        self.files = files  # {injected file name: path relative to /verif/harness}
        self.test = test
        self.go = go
        self.timeout_s = timeout_s
        self.env = env or {}
        self.n = n or {"quick": 1000, "thorough": 10000}
        self.model = model  # model name expected by the driver (first line)
        self.driver = driver  # lean_exe name; None => no model differential for this harness (monitor only)
        self.common = common
        self.extra_args = extra_args or []
        self.race = race
        self.mod_append = mod_append or []  # lines appended to the -modfile copy of go.mod (never to /repo)


class Spec:
    def __init__(self, pid, lean_modules, harnesses, translators=None, trusted_base=None, assumptions=None,
                 rule="", obligation_prefix=None, level="proof", lean_exes=None, post=None, extra_audit_modules=None):
        self.pid = pid
        self.lean_modules = lean_modules
        self.harnesses = harnesses
        self.translators = translators or []
        self.trusted_base = trusted_base or []
        self.assumptions = assumptions or []
        self.rule = rule
        self.obligation_prefix = obligation_prefix or (pid + "_")
        self.level = level
        self.lean_exes = lean_exes if lean_exes is not None else sorted({h.driver for h in harnesses if h.driver})
        self.post = post  # optional callable(ctx) for property-specific extra checks
        self.extra_audit_modules = extra_audit_modules or []


class Ctx:
    def __init__(self, spec, tier, seed, replay=None):
        self.spec = spec
        self.pid = spec.pid
        self.tier = tier
        self.seed = seed
        self.replay = replay
        # VERIF_KEEP_SCRATCH: the documented, stable location; otherwise one directory per run so that
        # concurrent runs of the same property do not delete each other's files
        self.scratch = os.path.join(VERIF, ".scratch", spec.pid)
        if not os.environ.get("VERIF_KEEP_SCRATCH"):
            self.scratch = os.path.join(self.scratch, "run-%d" % os.getpid())
        self.t0 = time.time()
        self.violations = []  # dicts {kind, sig, detail, replay}
        self.known_hits = {}  # sig -> what
        self.broken = []  # TieBroken descriptions
        self.cov = {
            "evaluations": 0, "distinct_nontrivial": 0, "samples": [], "traces_validated_against_impl": 0,
            "obligations": 0, "discharged": 0, "stats": {}, "axioms": {}, "harness": {},
        }
        self._nontrivial_hashes = set()
        self.log_lines = []

    def log(self, *a):
        msg = " ".join(str(x) for x in a)
        self.log_lines.append(msg)
        print("[%s %6.1fs] %s" % (self.pid, time.time() - self.t0, msg), flush=True)


def load_known():
    p = os.path.join(VERIF, "known_findings.json")
    if not os.path.exists(p):
        return []
    with open(p) as f:
        return json.load(f).get("findings", [])


def repo_status():
    r = subprocess.run(["git", "-C", REPO, "status", "--porcelain"], capture_output=True, text=True)
    return r.stdout


def write_if_changed(path, content):
    """atomic; identical content leaves the file (and lake's trace) untouched"""
    try:
        with open(path) as f:
            if f.read() == content:
                return False
    except FileNotFoundError:
        pass
    tmp = path + ".tmp%d" % os.getpid()
    with open(tmp, "w") as f:
        f.write(content)
    os.replace(tmp, path)
    return True


# ---------------------------------------------------------------------------------------------
# Lean side

def lean_sources_for_grep():
    out = []
    for root, _dirs, files in os.walk(os.path.join(LEAN, "OtelVerif")):
        for fn in files:
            if fn.endswith(".lean"):
                out.append(os.path.join(root, fn))
    return out


def strip_comments(src):
    # remove /- ... -/ (nested) and -- line comments
    out = []
    i, depth, n = 0, 0, len(src)
    while i < n:
        if src.startswith("/-", i):
            depth += 1
            i += 2
        elif depth and src.startswith("-/", i):
            depth -= 1
            i += 2
        elif depth:
            if src[i] == "\n":
                out.append("\n")
            i += 1
        elif src.startswith("--", i):
            while i < n and src[i] != "\n":
                i += 1
        else:
            out.append(src[i])
            i += 1
    return "".join(out)


def module_closure(mods):
    """OtelVerif.* modules imported (transitively) by mods -> file paths"""
    seen, todo = {}, list(mods)
    while todo:
        m = todo.pop()
        if m in seen or not m.startswith("OtelVerif"):
            continue
        p = os.path.join(LEAN, *m.split(".")) + ".lean"
        if not os.path.exists(p):
            continue
        seen[m] = p
        with open(p) as f:
            for line in f:
                mm = re.match(r"\s*(?:public\s+)?import\s+([\w.]+)", line)
                if mm:
                    todo.append(mm.group(1))
    return seen


def lean_build(ctx):
    spec = ctx.spec
    targets = list(spec.lean_modules) + list(spec.lean_exes)
    t = time.time()
    r = subprocess.run(["lake", "build"] + targets, cwd=LEAN, capture_output=True, text=True)
    ctx.log("lake build %s -> %d (%.1fs)" % (" ".join(targets), r.returncode, time.time() - t))
    # private copies of the driver executables: a concurrent run against another tree may rebuild them
    os.makedirs(ctx.scratch, exist_ok=True)
    for exe in spec.lean_exes:
        src = os.path.join(LEAN, ".lake", "build", "bin", exe)
        if r.returncode == 0 or os.path.exists(src):
            try:
                shutil.copy(src, os.path.join(ctx.scratch, exe))
            except OSError:
                pass
    if r.returncode != 0:
        out = r.stdout + r.stderr
        errs = [l for l in out.splitlines() if "error" in l][:20]
        broken = []
        for l in errs:
            mm = re.match(r"error: (\S+\.lean):(\d+):(\d+)", l)
            if mm:
                broken.append(nearest_decl(os.path.join(LEAN, mm.group(1)) if not os.path.isabs(mm.group(1)) else mm.group(1), int(mm.group(2))))
        raise TieBroken("lean-build", "theorems/defs that no longer check: %s\n%s" % (sorted(set(b for b in broken if b)), "\n".join(errs)))
    # forbidden tokens in every file the property depends on
    files = module_closure(spec.lean_modules + ["OtelVerif.Drivers." + spec.pid])
    bad = []
    for m, p in files.items():
        with open(p) as f:
            body = strip_comments(f.read())
        for ln, line in enumerate(body.splitlines(), 1):
            if FORBIDDEN.search(line):
                bad.append("%s:%d: %s" % (m, ln, line.strip()))
    if bad:
        raise TieBroken("lean-forbidden-token", "\n".join(bad))
    # axiom audit
    os.makedirs(ctx.scratch, exist_ok=True)
    audit = os.path.join(ctx.scratch, "Audit.lean")
    mods = spec.lean_modules + spec.extra_audit_modules
    with open(audit, "w") as f:
        f.write("import OtelVerif.Common.Audit\n")
        for m in mods:
            f.write("import %s\n" % m)
        for m in mods:
            f.write("#audit_module %s\n" % m)
    t = time.time()
    r = subprocess.run(["lake", "env", "lean", audit], cwd=LEAN, capture_output=True, text=True)
    ctx.log("axiom audit -> %d (%.1fs)" % (r.returncode, time.time() - t))
    if r.returncode != 0:
        raise TieBroken("lean-audit", r.stdout + r.stderr)
    obligations, discharged, badax = 0, 0, []
    for line in r.stdout.splitlines():
        mm = re.search(r"AUDIT (\S+) axioms=\[(.*)\]", line)
        if not mm:
            continue
        name, axs = mm.group(1), [a for a in mm.group(2).split(",") if a]
        short = name.split(".")[-1]
        is_obl = re.match(r"C\d\d_", short) is not None
        if not set(axs) <= ACCEPTED_AXIOMS:
            badax.append("%s uses %s" % (name, axs))
        if is_obl:
            obligations += 1
            ctx.cov["axioms"][name] = axs
            if set(axs) <= ACCEPTED_AXIOMS:
                discharged += 1
    ctx.cov["obligations"] += obligations
    ctx.cov["discharged"] += discharged
    if badax:
        raise TieBroken("lean-axioms", "\n".join(badax))
    if obligations == 0:
        raise TieBroken("lean-no-obligations", "no theorem named %s* found in %s" % (spec.obligation_prefix, mods))


def nearest_decl(path, line):
    try:
        with open(path) as f:
            lines = f.readlines()
    except OSError:
        return None
    for i in range(min(line, len(lines)) - 1, -1, -1):
        mm = re.match(r"\s*(?:private\s+|protected\s+)?(?:theorem|lemma|def|instance|example|abbrev|structure|inductive)\s+([\w.']+)?", lines[i])
        if mm:
            return "%s:%s" % (os.path.basename(path), mm.group(1) or "example@%d" % (i + 1))
    return os.path.basename(path)


def leanchecker(ctx):
    for m in ctx.spec.lean_modules:
        t = time.time()
        r = subprocess.run(["lake", "env", "leanchecker", m], cwd=LEAN, capture_output=True, text=True)
        ctx.log("leanchecker %s -> %d (%.1fs)" % (m, r.returncode, time.time() - t))
        if r.returncode != 0:
            raise TieBroken("leanchecker", (r.stdout + r.stderr)[-2000:])
    ctx.cov["leanchecker"] = True


# ---------------------------------------------------------------------------------------------
# Go side

def package_name(pkgdir):
    names = sorted(os.listdir(pkgdir))
    for test_only in (False, True):
        for fn in names:
            if fn.endswith(".go") and (fn.endswith("_test.go") == test_only):
                with open(os.path.join(pkgdir, fn)) as f:
                    for line in f:
                        mm = re.match(r"package\s+(\w+)", line)
                        if mm and not (test_only and mm.group(1).endswith("_test")):
                            return mm.group(1)
    raise RuntimeError("no package clause in " + pkgdir)


def run_harness(ctx, h, esc=None):
    """returns path of the line file written by the harness.
    esc = None for the ordinary pass; for the escalated search (see `escalate`) a dict
    {"tag": str, "seed": int, "tier": "thorough", "budget_s": float}: the harness then runs with the thorough-tier
    sizes under another seed and is stopped when the budget is used up (its partial output is still analysed)."""
    sdir = os.path.join(ctx.scratch, h.name + (esc["tag"] if esc else ""))
    shutil.rmtree(sdir, ignore_errors=True)
    os.makedirs(sdir)
    moddir = os.path.join(REPO, h.module)
    pkgdir = os.path.join(REPO, h.pkg)
    overlay = {}
    for target, src in h.files.items():
        spath = os.path.join(VERIF, "harness", src)
        if src.endswith(".tmpl"):
            # shared between harnesses living in different packages: substitute the package clause
            with open(spath) as f:
                body = f.read().replace("PACKAGE_NAME", package_name(pkgdir))
            spath = os.path.join(sdir, target)
            with open(spath, "w") as f:
                f.write(body)
        overlay[os.path.join(pkgdir, target)] = spath
    if h.common:
        with open(os.path.join(VERIF, "harness", "common", "common.go.tmpl")) as f:
            body = f.read().replace("PACKAGE_NAME", package_name(pkgdir))
        cpath = os.path.join(sdir, "zz_verif_common_test.go")
        with open(cpath, "w") as f:
            f.write(body)
        overlay[os.path.join(pkgdir, "zz_verif_common_test.go")] = cpath
    opath = os.path.join(sdir, "overlay.json")
    with open(opath, "w") as f:
        json.dump({"Replace": overlay}, f)
    shutil.copy(os.path.join(moddir, "go.mod"), os.path.join(sdir, "go.mod"))
    if os.path.exists(os.path.join(moddir, "go.sum")):
        shutil.copy(os.path.join(moddir, "go.sum"), os.path.join(sdir, "go.sum"))
    if h.mod_append:
        with open(os.path.join(sdir, "go.mod"), "a") as f:
            f.write("\n" + "\n".join(l.replace("$REPO", REPO) for l in h.mod_append) + "\n")
    out = os.path.join(sdir, "lines.txt")
    env = dict(os.environ)
    env.update(GOENV)
    tier = esc["tier"] if esc else ctx.tier
    env.update({
        "VERIF_SEED": str(esc["seed"] if esc else ctx.seed), "VERIF_TIER": tier, "VERIF_OUT": out,
        "VERIF_N": str(h.n.get(tier, h.n["quick"])),
        "GOMEMLIMIT": "8GiB",
    })
    if ctx.replay is not None and ctx.replay.get("harness") in (None, h.name):
        if "case" in ctx.replay:
            env["VERIF_REPLAY_CASE"] = str(ctx.replay["case"])
        env["VERIF_SEED"] = str(ctx.replay.get("seed", ctx.seed))
    env.update(h.env)
    rel = "./" + os.path.relpath(pkgdir, moddir) + "/"
    # quick tier: no single harness may sit on a hang for longer than 10 minutes
    timeout_s = min(h.timeout_s, 600) if ctx.tier == "quick" else h.timeout_s
    if esc:
        timeout_s = int(h.timeout_s + esc["budget_s"]) + 60  # the external budget below ends the run, not go test
    cmd = [h.go, "test", "-tags", "verif", "-vet=off", "-overlay", opath, "-modfile=" + os.path.join(sdir, "go.mod"),
           "-run", "^%s$" % h.test, "-count=1", "-timeout", "%ds" % timeout_s] + (["-race"] if h.race else []) + h.extra_args + [rel]
    t = time.time()
    if esc:
        # own process group, so that the test binary is stopped together with `go test` when the budget is used up
        pr = subprocess.Popen(cmd, cwd=moddir, env=env, stdout=subprocess.PIPE, stderr=subprocess.PIPE, text=True, start_new_session=True)
        try:
            so, se = pr.communicate(timeout=max(20.0, esc["budget_s"]))
        except subprocess.TimeoutExpired:
            try:
                os.killpg(pr.pid, 9)
            except OSError:
                pass
            so, se = pr.communicate()
            ctx.log("escalated harness %s%s: budget used up after %.0fs, analysing what it wrote" % (h.name, esc["tag"], time.time() - t))
            ctx.cov["harness"][h.name + esc["tag"]] = {"cmd": " ".join(cmd), "exit": "budget", "wall_s": round(time.time() - t, 1)}
            if not os.path.exists(out):
                return None
            esc["cut"] = True
            return out
        r = subprocess.CompletedProcess(cmd, pr.returncode, so, se)
    else:
        r = subprocess.run(cmd, cwd=moddir, env=env, capture_output=True, text=True)
    ctx.log("harness %s%s: %s -> %d (%.1fs)" % (h.name, esc["tag"] if esc else "", " ".join(cmd[:2] + [rel]), r.returncode, time.time() - t))
    ctx.cov["harness"][h.name + (esc["tag"] if esc else "")] = {"cmd": " ".join(cmd), "exit": r.returncode, "wall_s": round(time.time() - t, 1)}
    with open(os.path.join(sdir, "gotest.log"), "w") as f:
        f.write(r.stdout + "\n--- stderr ---\n" + r.stderr)
    if r.returncode != 0:
        tail = (r.stdout + r.stderr)[-3000:]
        if "[build failed]" in tail or "[setup failed]" in tail or "cannot find package" in tail:
            raise TieBroken("harness-build:" + h.name, tail)
        # the test process failed/crashed: keep whatever was written, report as correspondence break
        ctx.broken.append(("harness-run:" + h.name, tail))
    if not os.path.exists(out):
        raise TieBroken("harness-no-output:" + h.name, (r.stdout + r.stderr)[-3000:])
    return out


def run_driver(ctx, h, linefile):
    exe = os.path.join(ctx.scratch, h.driver)
    out = os.path.join(os.path.dirname(linefile), "model.txt")
    t = time.time()
    with open(linefile) as fin, open(out, "w") as fout:
        r = subprocess.run([exe], stdin=fin, stdout=fout, stderr=subprocess.PIPE, text=True)
    ctx.log("driver %s -> %d (%.1fs)" % (h.driver, r.returncode, time.time() - t))
    if r.returncode != 0:
        raise TieBroken("driver-crash:" + h.driver, r.stderr[-2000:])
    return out


def trim_to_last_end(path):
    """a line file cut by the escalation budget: keep everything up to the last complete `end` line"""
    with open(path, "rb") as f:
        data = f.read()
    k = data.rfind(b"\nend\n")
    with open(path, "wb") as f:
        f.write(data[:k + 5] if k >= 0 else b"")


def source_changed():
    """-> description of how REPO's Go sources differ from the tree the committed evidence was made on, or None.
    Differences: tracked *.go / go.mod files modified against HEAD, untracked non-test *.go files, or a HEAD whose Go sources
    (content digest over every *.go / go.mod / go.sum blob, lib/srcdigest.py) are not the ones recorded in tools/baseline.json
    (written by tools/baseline.py after the acceptance run). The commit id itself is NOT compared: a restore or snapshot that
    re-commits the same sources has another id and is the same tree."""
    try:
        r = subprocess.run(["git", "-C", REPO, "status", "--porcelain", "--untracked-files=all"], capture_output=True, text=True)
        ch = [l[3:] for l in r.stdout.splitlines()
              if (l[3:].endswith(".go") or l[3:].endswith("go.mod")) and not (l.startswith("??") and l.endswith("_test.go"))]
        if ch:
            return "working tree differs from HEAD in " + ", ".join(ch[:6])
        with open(os.path.join(VERIF, "tools", "baseline.json")) as f:
            rec = json.load(f)
        head = subprocess.run(["git", "-C", REPO, "rev-parse", "HEAD"], capture_output=True, text=True).stdout.strip()
        if rec.get("repo_head") and head == rec.get("repo_head"):
            return None
        base, cur = rec.get("go_sources_sha1"), srcdigest.digest(REPO)
        if base and cur and base != cur:
            return "Go sources of HEAD %s (digest %s) are not the recorded baseline (digest %s)" % (head[:9], cur[:9], base[:9])
    except (OSError, ValueError):
        pass
    return None


ESCALATION_BUDGET_S = float(os.environ.get("VERIF_ESCALATE_BUDGET", "420"))


def escalate(ctx, lean_ok, why):
    """DESIGN §2.5: the search for a concrete failing input when a proof obligation or the correspondence no longer
    checks but no oracle has failed yet — and, in the quick tier, also when the Go sources differ from the tree the
    check was accepted on and the first pass saw nothing. Every harness is re-run with the thorough-tier sizes
    (exhaustive small scopes included) under other seeds until an oracle fails or the budget is used up. This is a
    search, never a verdict of its own: it can only add `viol` / `prop FAIL` hits and differences."""
    t0 = time.time()
    ctx.log("escalated search (%s), budget %.0fs" % (why, ESCALATION_BUDGET_S))
    ctx.cov["escalated"] = why
    rounds = 0
    while time.time() - t0 < ESCALATION_BUDGET_S and not ctx.violations and rounds < 3:
        rounds += 1
        for h in ctx.spec.harnesses:
            left = ESCALATION_BUDGET_S - (time.time() - t0)
            if left < 25 or ctx.violations:
                break
            if any(b[0].endswith("harness-build:" + h.name) for b in ctx.broken):
                continue
            esc = {"tag": "+esc%d" % rounds, "seed": ctx.seed + 7919 * rounds, "tier": "thorough", "budget_s": left}
            try:
                lf = run_harness(ctx, h, esc)
                if lf is None:
                    continue
                if esc.get("cut"):
                    trim_to_last_end(lf)
                mf = None
                if h.driver and (lean_ok or os.path.exists(os.path.join(ctx.scratch, h.driver))):
                    try:
                        mf = run_driver(ctx, h, lf)
                    except TieBroken as e:
                        ctx.broken.append(("correspondence:" + e.what, e.detail))
                analyse(ctx, h, lf, mf, cut=bool(esc.get("cut")))
            except TieBroken as e:
                ctx.broken.append(("correspondence:" + e.what, e.detail))
    ctx.log("escalated search done after %.0fs: %d violation(s)" % (time.time() - t0, len(ctx.violations)))


def split_cases(path, keep):
    """-> list of (case id, [lines kept], [all lines])"""
    cases, cur = [], None
    with open(path) as f:
        for raw in f:
            line = raw.rstrip("\n")
            if line.startswith("case "):
                cur = [line.split()[1], [], [line]]
                cases.append(cur)
                continue
            if cur is None:
                continue
            cur[2].append(line)
            tag = line.split(" ", 1)[0]
            if tag in keep:
                cur[1].append(line)
    return cases


def analyse(ctx, h, linefile, modelfile, cut=False):
    """cut: the harness was stopped by the escalation budget — its last, unfinished case is dropped, not diffed"""
    known = {k["signature"]: k for k in load_known() if k["property"] == ctx.pid and k.get("status") == "open"}
    impl = split_cases(linefile, {"obs", "end"})
    if cut and impl and "end" not in impl[-1][2]:
        impl.pop()
    stats = ctx.cov["stats"].setdefault(h.name, {})
    model = split_cases(modelfile, {"obs", "end", "prop"}) if modelfile else None
    if cut and model is not None:
        model = model[:len(impl)]
    ctx.cov["evaluations"] += len(impl)
    nsample = 0
    first_diff = None
    for idx, (cid, kept, alll) in enumerate(impl):
        ops = [l for l in alll if l.startswith("op ") or l.startswith("case ")]
        hsh = hashlib.sha1("\n".join(l for l in ops if not l.startswith("case ")).encode()).hexdigest()
        nt = any(l == "nt" or l.startswith("nt ") for l in alll)
        if nt:
            ctx._nontrivial_hashes.add((h.name, hsh))
        for l in alll:
            if l.startswith("stat "):
                parts = l.split()
                if len(parts) >= 3:
                    try:
                        stats[parts[1]] = stats.get(parts[1], 0) + int(parts[2])
                    except ValueError:
                        pass
            elif l.startswith("viol "):
                record_violation(ctx, h, known, "impl-oracle", l[5:], cid, alll, None)
        if nt and nsample < 2 and len(alll) < 80:
            ctx.cov["samples"].append({"harness": h.name, "case": cid, "lines": alll[:60]})
            nsample += 1
        if model is not None:
            if idx >= len(model):
                if first_diff is None:
                    first_diff = (cid, alll, [], "model output ends before case %s" % cid)
                continue
            mcid, mkept, mall = model[idx]
            mobs = [l for l in mkept if not l.startswith("prop ")]
            if mcid != cid or mobs != kept:
                if first_diff is None:
                    k = 0
                    while k < min(len(mobs), len(kept)) and mobs[k] == kept[k]:
                        k += 1
                    first_diff = (cid, alll, mall, "first differing obs #%d: impl=%r model=%r" % (
                        k, kept[k] if k < len(kept) else None, mobs[k] if k < len(mobs) else None))
            else:
                ctx.cov["traces_validated_against_impl"] += 1
            for l in mkept:
                if l.startswith("prop ") and "=FAIL" in l:
                    record_violation(ctx, h, known, "lean-oracle", l[5:], cid, alll, mall)
    # a harness process that crashed, hung or timed out: the case it was in (flushed per case, so the last one without
    # `end`) is the concrete replay
    if impl and any(b[0] == "harness-run:" + h.name for b in ctx.broken):
        cid, kept, alll = impl[-1]
        if "end" not in alll:
            record_violation(ctx, h, known, "crash-or-hang",
                             "sig=%s/harness/case-did-not-complete the harness process crashed, hung or timed out inside this case" % ctx.pid,
                             cid, alll, None)
    if nsample == 0 and impl:
        cid, kept, alll = impl[0]
        ctx.cov["samples"].append({"harness": h.name, "case": cid, "lines": alll[:60]})
    if first_diff is not None:
        cid, alll, mall, why = first_diff
        ctx.broken.append(("correspondence:" + h.name, "case %s: %s" % (cid, why), {"case": cid, "impl": alll, "model": mall}))


def record_violation(ctx, h, known, kind, text, cid, impl_lines, model_lines):
    mm = re.search(r"sig=(\S+)", text)
    sig = mm.group(1) if mm else "%s/unsigned" % ctx.pid
    if sig in known:
        ctx.known_hits.setdefault(sig, known[sig]["what"])
        return
    if len([v for v in ctx.violations if v["sig"] == sig]) >= 3:
        return
    ctx.violations.append({"kind": kind, "sig": sig, "detail": text, "harness": h.name, "case": cid,
                           "impl": impl_lines[:400], "model": (model_lines or [])[:400]})


# ---------------------------------------------------------------------------------------------
# verdict

def write_replay(ctx, name, payload):
    d = os.path.join(VERIF, "replays")
    os.makedirs(d, exist_ok=True)
    body = json.dumps(payload, indent=1, sort_keys=True)
    h = hashlib.sha1(body.encode()).hexdigest()[:10]
    p = os.path.join(d, "%s-%s-%s.json" % (ctx.pid, name, h))
    with open(p, "w") as f:
        f.write(body)
    return p


def run(spec, tier, seed, replay=None):
    ctx = Ctx(spec, tier, seed, replay)
    os.makedirs(ctx.scratch, exist_ok=True)
    before = repo_status()
    lean_ok = True
    # Gen files, .olean files and driver executables are shared by every run in this workspace: regenerate, build,
    # audit and take private copies of the drivers under ONE lock, so that a concurrent run against another tree
    # (seeded change, fix worktree) can never be observed half-way.
    lock = open(os.path.join(LEAN, ".verif.lock"), "w")
    fcntl.flock(lock, fcntl.LOCK_EX)
    try:
        # 1. translators
        for tr in spec.translators:
            try:
                tr(ctx)
            except TieBroken as e:
                ctx.broken.append(("translator:" + e.what, e.detail))
                ctx.log("translator tie broken:", e.what)
        # 2. prove
        try:
            lean_build(ctx)
            if tier == "thorough":
                leanchecker(ctx)
        except TieBroken as e:
            lean_ok = False
            ctx.broken.append(("proof:" + e.what, e.detail))
            ctx.log("proof obligation broken:", e.what)
    finally:
        if os.path.realpath(REPO) != "/repo":
            # a run against a scratch tree must not leave ITS generated tables behind for the next run / a commit
            # regenerate this property's generated files from /repo (still under the lock). No `git checkout` of the Gen
            # directory: the committed copies may be stale, and checking them out would also roll back OTHER properties'
            # generated files, which this run never touched
            env = {k: v for k, v in os.environ.items() if k != "VERIF_REPO"}
            subprocess.run([sys.executable, os.path.join(VERIF, "tools", "regen.py"), spec.pid], env=env, capture_output=True)
        fcntl.flock(lock, fcntl.LOCK_UN)
        lock.close()
    # 3./4. correspond + search
    for h in spec.harnesses:
        if replay is not None and replay.get("harness") not in (None, h.name):
            continue
        try:
            lf = run_harness(ctx, h)
            mf = None
            if h.driver:
                exe = os.path.join(ctx.scratch, h.driver)
                if lean_ok or os.path.exists(exe):
                    try:
                        mf = run_driver(ctx, h, lf)
                    except TieBroken as e:
                        ctx.broken.append(("correspondence:" + e.what, e.detail))
            analyse(ctx, h, lf, mf)
        except TieBroken as e:
            ctx.broken.append(("correspondence:" + e.what, e.detail))
            ctx.log("correspondence broken:", e.what)
    if spec.post:
        try:
            spec.post(ctx)
        except TieBroken as e:
            ctx.broken.append(("post:" + e.what, e.detail))
    # 4b. escalated search for a concrete failing input (never on a replay; only when nothing concrete was found yet)
    if replay is None and not ctx.violations and not os.environ.get("VERIF_NO_ESCALATE"):
        if ctx.broken and not any(b[0] == "repo-modified" for b in ctx.broken):
            escalate(ctx, lean_ok, "no longer checks: " + ctx.broken[0][0])
        elif tier == "quick" and not ctx.broken:
            why = source_changed()
            if why:
                escalate(ctx, lean_ok, why)
    after = repo_status()
    if before != after:
        ctx.broken.append(("repo-modified", "git status of /repo changed during the run:\n" + after))
    return finish(ctx)


def finish(ctx):
    ctx.cov["distinct_nontrivial"] = len(ctx._nontrivial_hashes)
    lines = []
    for sig, what in sorted(ctx.known_hits.items()):
        lines.append("KNOWN-FINDING: property=%s %s [%s]" % (ctx.pid, what, sig))
    rc = 0
    if ctx.violations:
        rc = 1
        v = ctx.violations[0]
        p = write_replay(ctx, "violation", {"property": ctx.pid, "seed": ctx.seed, "tier": ctx.tier, "signature": v["sig"],
                                            "harness": v["harness"], "case": v["case"], "kind": v["kind"], "detail": v["detail"],
                                            "impl_lines": v["impl"], "model_lines": v["model"],
                                            "other_violations": [{k: x[k] for k in ("sig", "detail", "harness", "case")} for x in ctx.violations[1:10]],
                                            "broken": [list(b[:2]) for b in ctx.broken]})
        lines.append("VIOLATION property=%s replay=%s" % (ctx.pid, p))
    elif ctx.broken:
        rc = 1
        b = ctx.broken[0]
        payload = {"property": ctx.pid, "seed": ctx.seed, "tier": ctx.tier,
                   "no_longer_checks": b[0], "detail": b[1], "all_broken": [list(x[:2]) for x in ctx.broken],
                   "note": "a proof obligation or the model/implementation correspondence no longer checks; the search over "
                           "the implementation traces of this run and the model found no input on which the property itself fails"}
        if len(b) > 2:
            payload.update(b[2])
        p = write_replay(ctx, "broken", payload)
        lines.append("VIOLATION property=%s replay=%s no-failing-input-found" % (ctx.pid, p))
    write_evidence(ctx, rc)
    for l in lines:
        print(l, flush=True)
    if rc == 0:
        print("OK property=%s tier=%s obligations=%d/%d evaluations=%d nontrivial=%d validated=%d wall=%.1fs" % (
            ctx.pid, ctx.tier, ctx.cov["discharged"], ctx.cov["obligations"], ctx.cov["evaluations"],
            ctx.cov["distinct_nontrivial"], ctx.cov["traces_validated_against_impl"], time.time() - ctx.t0), flush=True)
    else:
        for b in ctx.broken[:5]:
            print("BROKEN %s: %s" % (b[0], str(b[1])[:1500]), flush=True)
    if not os.environ.get("VERIF_KEEP_SCRATCH"):
        shutil.rmtree(ctx.scratch, ignore_errors=True)
    return rc


def write_evidence(ctx, rc):
    spec = ctx.spec
    cov = ctx.cov
    mods = " ".join(spec.lean_modules)
    checker = "cd /verif/lean && lake build %s && lake env lean <generated #audit_module for %s>" % (mods, mods)
    if ctx.tier == "thorough":
        checker += " && lake env leanchecker " + mods
    ev = {
        "property_id": ctx.pid,
        "tier": ctx.tier,
        "seed": ctx.seed,
        "level": spec.level,
        "coverage": {
            "obligations": cov["obligations"],
            "discharged": cov["discharged"],
            "checker_cmd": checker,
            "trusted_base": spec.trusted_base,
            "evaluations": cov["evaluations"],
            "distinct_nontrivial": cov["distinct_nontrivial"],
            "rule": spec.rule,
            "samples": cov["samples"][:6],
            "traces_validated_against_impl": cov["traces_validated_against_impl"],
            "axioms_per_theorem": cov["axioms"],
            "input_distribution": cov["stats"],
            "harness_runs": cov["harness"],
            "known_findings_reproduced": sorted(ctx.known_hits),
            "no_longer_checks": [b[0] for b in ctx.broken],
        },
        "assumptions": spec.assumptions,
        "wall_s": round(time.time() - ctx.t0, 2),
        "violations": len(ctx.violations) + (1 if (ctx.broken and not ctx.violations) else 0),
    }
    for k, v in cov.items():
        if k not in ev["coverage"] and k not in ("stats", "axioms", "harness"):
            ev["coverage"][k] = v
    # evidence belongs to runs against /repo itself; runs against a scratch worktree (VERIF_REPO) keep theirs in scratch
    evdir = os.path.join(VERIF, "evidence") if (os.path.realpath(REPO) == "/repo" and ctx.replay is None) else os.path.join(VERIF, ".scratch", ctx.pid)
    os.makedirs(evdir, exist_ok=True)
    with open(os.path.join(evdir, ctx.pid + ".json"), "w") as f:
        json.dump(ev, f, indent=1, sort_keys=True)
