"""Content identity of a collector tree's Go sources, independent of commit ids.

`digest(repo)` = sha1 over the sorted `<blob id> <path>` lines of every `*.go`, `go.mod` and `go.sum` entry of HEAD's tree.
A restore, snapshot, rebase or squash of the same sources gives another commit id but the same digest; any committed change
to a Go source gives another digest. (Uncommitted changes are detected separately with `git status`.)"""
import hashlib
import subprocess


def digest(repo):
    r = subprocess.run(["git", "-C", repo, "ls-tree", "-r", "HEAD"], capture_output=True, text=True)
    if r.returncode != 0:
        return None
    rows = []
    for line in r.stdout.splitlines():
        meta, _, path = line.partition("\t")
        if path.endswith(".go") or path.endswith("go.mod") or path.endswith("go.sum"):
            rows.append("%s %s" % (meta.split()[2], path))
    if not rows:
        return None
    rows.sort()
    return hashlib.sha1("\n".join(rows).encode()).hexdigest()
