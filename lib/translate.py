"""Run a translator from /verif/translators and (re)write a Gen/*.lean file."""
import os
import subprocess

from .runner import GOENV, LEAN, REPO, VERIF, TieBroken, write_if_changed


def go_translator(cmd_name, gen_rel, args=None):
    def tr(ctx):
        env = dict(os.environ)
        env.update(GOENV)
        r = subprocess.run(["go", "run", "./cmd/" + cmd_name, REPO] + (args or []),
                           cwd=os.path.join(VERIF, "translators"), env=env, capture_output=True, text=True)
        if r.returncode != 0:
            # do not let a stale generated file stand in for the current source
            try:
                os.remove(os.path.join(LEAN, gen_rel))
            except FileNotFoundError:
                pass
            raise TieBroken(cmd_name, "translator %s: source no longer has the expected shape:\n%s" % (cmd_name, r.stderr[-2000:]))
        changed = write_if_changed(os.path.join(LEAN, gen_rel), r.stdout)
        ctx.log("translator %s -> %s (%s)" % (cmd_name, gen_rel, "changed" if changed else "unchanged"))
    return tr
