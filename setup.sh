#!/bin/sh
# MANIFEST.setup_cmd: build the Lean project (property modules of every claimed check, the audit tool, their driver exes)
# and warm the Go build cache for the translators. Offline; reads only files on disk.
set -e
cd "$(dirname "$0")"
export GOFLAGS=-mod=mod GOPROXY=off GOSUMDB=off GOTOOLCHAIN=local
mkdir -p .scratch evidence replays
targets=$(python3 - <<'PY'
import json
c = json.load(open("tools/claims.json"))["claimed"]
print(" ".join("OtelVerif.Props.%s drv_%s" % (p, p.lower()) for p in sorted(c)))
PY
)
# regenerate every Gen/*.lean from /repo first: the build must not depend on a committed copy
flock lean/.verif.lock python3 tools/regen.py
cd lean
# shellcheck disable=SC2086
flock .verif.lock lake build OtelVerif.Common.Line OtelVerif.Common.Audit $targets
cd ../translators
go build ./...
echo setup-ok
