#!/bin/sh
# MANIFEST.setup_cmd: build the Lean project (all property modules, the audit tool, every driver exe)
# and warm the Go build cache for the translators. Offline; reads only files on disk.
set -e
cd "$(dirname "$0")"
export GOFLAGS=-mod=mod GOPROXY=off GOSUMDB=off GOTOOLCHAIN=local
mkdir -p .scratch evidence replays
cd lean
exes=$(sed -n 's/^name = "\(drv_[a-z0-9_]*\)"$/\1/p' lakefile.toml | tr '\n' ' ')
# shellcheck disable=SC2086
flock .verif.lock lake build OtelVerif OtelVerif.Common.Audit $exes
cd ../translators
go build ./... 
echo setup-ok
