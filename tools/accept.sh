#!/bin/sh
# tools/accept.sh Cxx [repo] — acceptance run for one property: quick with 3 seeds + thorough once, on /repo (or the given tree)
pid=$1; repo=${2:-/repo}
cd /verif
for s in 1 2 3; do VERIF_REPO=$repo VERIF_SEED=$s ./check $pid --tier quick 2>&1 | grep -E "^(OK|VIOLATION|KNOWN-FINDING|BROKEN)" | cut -c1-220; done
VERIF_REPO=$repo ./check $pid --tier thorough 2>&1 | grep -E "^(OK|VIOLATION|KNOWN-FINDING|BROKEN)" | cut -c1-220
