#!/usr/bin/env python3
"""tools/addfixed.py <PID> <signature> <commit in /repo> <what> [replay text] — append a `fixed` entry to known_findings.json"""
import json, sys, os
V = os.path.dirname(os.path.dirname(os.path.abspath(__file__)))
pid, sig, commit, what = sys.argv[1:5]
replay = sys.argv[5] if len(sys.argv) > 5 else ""
p = os.path.join(V, "known_findings.json")
k = json.load(open(p))
if any(e["signature"] == sig and e["property"] == pid for e in k["findings"]):
    print("already listed:", sig); sys.exit(0)
k["findings"].append({"property": pid, "signature": sig, "status": "fixed", "commit": commit, "what": what, "replay": replay,
                      "line": "fixed: property=%s %s %s" % (pid, commit, what)})
json.dump(k, open(p, "w"), indent=1, ensure_ascii=False)
print("added", sig)
