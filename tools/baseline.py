#!/usr/bin/env python3
"""tools/baseline.py — record /repo's HEAD as the tree the checks were accepted on (tools/baseline.json).
lib/runner.py runs its escalated search when the Go sources differ from that tree; run this after the
acceptance run whenever a `fix:` commit has been added to /repo."""
import json, os, subprocess
V = os.path.dirname(os.path.dirname(os.path.abspath(__file__)))
head = subprocess.run(["git", "-C", "/repo", "rev-parse", "HEAD"], capture_output=True, text=True).stdout.strip()
json.dump({"repo_head": head}, open(os.path.join(V, "tools", "baseline.json"), "w"), indent=1)
print("baseline", head)
