#!/usr/bin/env python3
"""tools/baseline.py — record the tree the checks were accepted on (tools/baseline.json): /repo's HEAD (for information) and
the CONTENT digest of its Go sources (lib/srcdigest.py), which is what lib/runner.py compares: it runs its escalated search
when the Go sources differ from that tree. A restore or snapshot that re-commits the same sources under another commit id
is the same tree. Run this after the acceptance run whenever a `fix:` commit has been added to /repo."""
import json, os, subprocess, sys
V = os.path.dirname(os.path.dirname(os.path.abspath(__file__)))
sys.path.insert(0, V)
from lib import srcdigest  # noqa: E402
head = subprocess.run(["git", "-C", "/repo", "rev-parse", "HEAD"], capture_output=True, text=True).stdout.strip()
dg = srcdigest.digest("/repo")
json.dump({"repo_head": head, "go_sources_sha1": dg}, open(os.path.join(V, "tools", "baseline.json"), "w"), indent=1)
print("baseline", head, dg)
