#!/usr/bin/env python3
"""tools/claims_from_reports.py [--write] — take the LAST fenced json block with technique/text/note from every docs/reports/Cxx.md
(the builders keep their current claim there) and show / write the differences to tools/claims.json. (C06 and C11 were skipped
while the coordinator owned them; since the second session they have builders and reports like the others.)"""
import json, os, re, sys
HERE = os.path.dirname(os.path.dirname(os.path.abspath(__file__)))
claims = json.load(open(os.path.join(HERE, "tools", "claims.json")))
changed = []
for pid in sorted(claims["claimed"]):
    path = os.path.join(HERE, "docs", "reports", pid + ".md")
    if not os.path.exists(path):
        continue
    txt = open(path).read()
    best = None
    for m in re.finditer(r"```(?:json)?\s*\n(.*?)```", txt, re.S):
        body = m.group(1).strip()
        for cand in (body, "{" + body.rstrip(",") + "}"):
            try:
                d = json.loads(cand)
            except Exception:
                continue
            if isinstance(d, dict) and pid in d and isinstance(d[pid], dict):
                d = d[pid]
            if isinstance(d, dict) and all(k in d for k in ("technique", "text", "note")):
                best = {k: d[k] for k in ("technique", "text", "note")}
            break
    if best is None:
        print(pid, "no parsable claims block")
        continue
    if best != claims["claimed"][pid]:
        changed.append(pid)
        claims["claimed"][pid] = best
print("changed:", changed)
if "--write" in sys.argv:
    json.dump(claims, open(os.path.join(HERE, "tools", "claims.json"), "w"), indent=1)
