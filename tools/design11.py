#!/usr/bin/env python3
"""tools/design11.py — (re)write section 11 of DESIGN.md from docs/DESIGN_11_body.md, filling the generated obligation table
(tools/design11_table.py) and the seeded-round paragraph (docs/DESIGN_11_seeds.md), then refresh the generated blocks of §10."""
import os, subprocess
V = os.path.dirname(os.path.dirname(os.path.abspath(__file__)))
d = open(os.path.join(V, "DESIGN.md")).read()
marker = "\n---------------------------------------------------------------------------------------------------\n\n## 11. Second session"
i = d.find(marker)
if i >= 0:
    d = d[:i].rstrip("\n") + "\n"
body = open(os.path.join(V, "docs", "DESIGN_11_body.md")).read()
tab = subprocess.run(["python3", os.path.join(V, "tools", "design11_table.py")], capture_output=True, text=True, check=True).stdout
b, e = "<!-- BEGIN GENERATED tools/design11_table.py -->", "<!-- END GENERATED tools/design11_table.py -->"
body = body[:body.index(b) + len(b)] + "\n" + tab.strip("\n") + "\n" + body[body.index(e):]
sp = os.path.join(V, "docs", "DESIGN_11_seeds.md")
body = body.replace("PLACEHOLDER_SEEDS", open(sp).read().strip("\n") if os.path.exists(sp) else "(filled at the end of the session)")
# section 12 (third session) is kept verbatim in docs/DESIGN_12.md and re-appended after section 11
p12 = os.path.join(V, "docs", "DESIGN_12.md")
tail = ("\n" + open(p12).read()) if os.path.exists(p12) else ""
open(os.path.join(V, "DESIGN.md"), "w").write(d.rstrip("\n") + "\n" + body.rstrip("\n") + "\n" + tail)
subprocess.run(["python3", os.path.join(V, "tools", "design_tables.py")], check=True)
print("section 11 written")
