#!/usr/bin/env python3
"""tools/design11_table.py — the table of DESIGN §11.2: obligations before (end of the first session, §10.5) and now (evidence/Cxx.json),
wall time and evaluations of the last recorded run of each property."""
import json, os
V = os.path.dirname(os.path.dirname(os.path.abspath(__file__)))
before = dict(C01=34, C02=48, C03=24, C04=24, C05=40, C06=16, C07=63, C08=50, C09=23, C10=19, C11=23, C12=29, C13=27, C14=25, C15=36,
              C16=29, C17=19, C18=37, C19=53, C20=30)
print("| property | obligations before | now | tier of the recorded run | wall | evaluations | distinct non-trivial |")
print("|---|---|---|---|---|---|---|")
tb = ta = 0
for p in sorted(before):
    e = json.load(open(os.path.join(V, "evidence", p + ".json")))
    c = e["coverage"]
    tb += before[p]; ta += c["obligations"]
    print("| %s | %d | %d (%d discharged) | %s | %.0f s | %d | %d |" % (p, before[p], c["obligations"], c["discharged"], e["tier"], e["wall_s"], c["evaluations"], c["distinct_nontrivial"]))
print("| total | %d | %d | | | | |" % (tb, ta))
