#!/usr/bin/env python3
"""tools/design_tables.py — refresh the generated blocks of DESIGN.md (between the BEGIN/END GENERATED markers) from
tools/findingstable.py and tools/seedtable.py."""
import os, re, subprocess
HERE = os.path.dirname(os.path.dirname(os.path.abspath(__file__)))
p = os.path.join(HERE, "DESIGN.md")
s = open(p).read()
seed = subprocess.run(["python3", os.path.join(HERE, "tools", "seedtable.py")], capture_output=True, text=True, check=True).stdout
per_seed, summary = seed.split("\n| round |", 1)
summary = "| round |" + summary
find = subprocess.run(["python3", os.path.join(HERE, "tools", "findingstable.py")], capture_output=True, text=True, check=True).stdout
def put(s, name, body):
    b, e = "<!-- BEGIN GENERATED %s -->" % name, "<!-- END GENERATED %s -->" % name
    i, j = s.index(b) + len(b), s.index(e)
    return s[:i] + "\n" + body.strip("\n") + "\n" + s[j:]
s = put(s, "tools/findingstable.py", find)
s = put(s, "tools/seedtable.py (round summary)", summary)
s = put(s, "tools/seedtable.py (per-seed table)", per_seed)
open(p, "w").write(s)
print("DESIGN.md generated blocks refreshed")
