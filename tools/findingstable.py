#!/usr/bin/env python3
"""tools/findingstable.py — markdown tables of known_findings.json (fixed with the /repo commit and its subject; open) for DESIGN.md §10.3."""
import json, os, subprocess
HERE = os.path.dirname(os.path.dirname(os.path.abspath(__file__)))
k = json.load(open(os.path.join(HERE, "known_findings.json")))
ent = k if isinstance(k, list) else k.get("findings", k)
def subj(c):
    out = []
    for h in c.split("+"):
        r = subprocess.run(["git", "-C", "/repo", "log", "-1", "--format=%h %s", h], capture_output=True, text=True)
        out.append(r.stdout.strip() or h)
    return "<br>".join(out)
def clip(s, n=330):
    s = " ".join(s.split())
    return (s if len(s) <= n else s[:n - 3] + "...").replace("|", "\\|")
print("**Repaired (%d entries, %d `fix:` commits on the pinned tree).**\n" % (sum(e["status"] == "fixed" for e in ent), len(set(h for e in ent if e["status"] == "fixed" for h in e["commit"].split("+")))))
print("| property | signature | commit in /repo | what failed |")
print("|---|---|---|---|")
for e in sorted(ent, key=lambda e: (e["property"], e["signature"])):
    if e["status"] == "fixed":
        print("| %s | `%s` | %s | %s |" % (e["property"], e["signature"], subj(e["commit"]).replace("|", "\\|"), clip(e["what"])))
print("\n**Open (recorded, not repaired; each check prints `KNOWN-FINDING:` for exactly these signatures and exits 0).**\n")
print("| property | signature | what fails and why it is not repaired | replay |")
print("|---|---|---|---|")
for e in sorted(ent, key=lambda e: (e["property"], e["signature"])):
    if e["status"] == "open":
        print("| %s | `%s` | %s | %s |" % (e["property"], e["signature"], clip(e["what"], 600), clip(e.get("replay", ""), 260)))
