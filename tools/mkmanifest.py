#!/usr/bin/env python3
"""Regenerate /verif/MANIFEST.json from tools/claims.json (one entry per claimed property) and
properties.jsonl (everything not claimed goes to not_applicable with the reason recorded in
claims.json["unclaimed"]). Validates against the schema when jsonschema is importable (python3-vt)."""
import json
import os
import sys

HERE = os.path.dirname(os.path.dirname(os.path.abspath(__file__)))
claims = json.load(open(os.path.join(HERE, "tools", "claims.json")))
props = [json.loads(l) for l in open(os.path.join(HERE, "properties.jsonl"))]
baseline = json.load(open("/root/.vp/BASELINE.json"))["cmd"] if os.path.exists("/root/.vp/BASELINE.json") else claims.get("baseline_cmd", "")

checks, na = [], []
for p in props:
    pid = p["id"]
    c = claims["claimed"].get(pid)
    if c is None:
        na.append({"property_id": pid, "reason": claims["unclaimed"].get(pid, "check not built yet (design in DESIGN.md section %s)" % pid)})
        continue
    checks.append({
        "property_id": pid,
        "quick_cmd": "./check %s --tier quick" % pid,
        "thorough_cmd": "./check %s --tier thorough" % pid,
        "evidence_file": "/verif/evidence/%s.json" % pid,
        "replay_cmd_template": "./check %s --replay {path}" % pid,
        "engine": "lean4-proof+correspondence",
        "level_claimed": {"category": "proof", "text": c["text"], "design_ref": "DESIGN.md section %s" % pid},
        "level_note": c["note"],
        "technique": c["technique"],
    })

manifest = {
    "version": 1,
    "setup_cmd": "./setup.sh",
    "hooks": {
        "guard": "verif",
        "enable": "go test -tags verif -vet=off -overlay /verif/.scratch/<id>/<harness>/overlay.json -modfile=/verif/.scratch/<id>/<harness>/go.mod (harness files live in /verif/harness, carry //go:build verif and are injected virtually; nothing is added to /repo)",
        "baseline_off_cmd": baseline,
        "source_commits": claims.get("hook_commits", []),
        "add_only": True,
    },
    "engines": [{
        "name": "lean4-proof+correspondence",
        "path": "/verif/check",
        "serves_properties": sorted(claims["claimed"]),
        "kind_free_text": "Lean 4 theorems about executable models (lake build + #print axioms audit + leanchecker in thorough); models tied to /repo on every run by go/ast translators that regenerate Lean data and by differential/monitor correspondence against the real Go code through go test -overlay",
    }],
    "checks": checks,
    "not_applicable": na,
    "notes": claims.get("notes", ""),
}
out = os.path.join(HERE, "MANIFEST.json")
json.dump(manifest, open(out, "w"), indent=1)
try:
    import jsonschema
    jsonschema.validate(manifest, json.load(open("/root/.vp/MANIFEST.schema.json")))
    print("MANIFEST.json valid: %d checks, %d not_applicable" % (len(checks), len(na)))
except ImportError:
    print("MANIFEST.json written (schema not validated: run with python3-vt)")
