#!/usr/bin/env python3
"""tools/pinned_suite.py [module ...] — run the pinned test suite of /root/.vp/BASELINE.json (no build tag, no overlay) on /repo's
working tree for the given modules (default: all 30 of /w/out/gomods.txt) and compare with its `stable_pass` list: prints every
stable test that no longer passes. Used after `fix:` commits (the suite, unedited, must still pass with them)."""
import json, os, subprocess, sys
from concurrent.futures import ThreadPoolExecutor
base = json.load(open("/root/.vp/BASELINE.json"))
stable = set(base["stable_pass"])
mods = sys.argv[1:] or open("/w/out/gomods.txt").read().split()
env = dict(os.environ, GOFLAGS="-mod=mod", GOPROXY="off", GOSUMDB="off", GOTOOLCHAIN="local")


def run(m):
    d = os.path.normpath(os.path.join("/repo", m))
    r = subprocess.run(["go", "test", "-mod=mod", "-json", "-vet=off", "-count=1", "-timeout", "25m", "./..."], cwd=d, env=env, capture_output=True, text=True)
    res = {}
    for line in r.stdout.splitlines():
        try:
            e = json.loads(line)
        except ValueError:
            continue
        if e.get("Test") and e.get("Action") in ("pass", "fail", "skip"):
            res["%s::%s" % (e["Package"], e["Test"])] = e["Action"]
    return m, res, r.returncode


allres = {}
with ThreadPoolExecutor(max_workers=int(os.environ.get("JOBS", "4"))) as ex:
    for m, res, rc in ex.map(run, mods):
        allres.update(res)
        print("module %-40s tests %5d exit %d" % (m, len(res), rc), flush=True)
pkgs = {k.split("::")[0] for k in allres}
want = {s for s in stable if s.split("::")[0] in pkgs}
bad = sorted(s for s in want if allres.get(s) != "pass")
print("stable tests in the modules run: %d, passing: %d, NOT passing: %d" % (len(want), len(want) - len(bad), len(bad)))
for b in bad[:50]:
    print("  NOT PASSING", b, allres.get(b))
sys.exit(1 if bad else 0)
