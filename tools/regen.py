#!/usr/bin/env python3
"""tools/regen.py [Cxx ...] — run the translators of every claimed property against /repo (rewrites lean/OtelVerif/Gen/*.lean).
Used by setup.sh so that the build never depends on a stale committed copy of a generated file."""
import importlib
import json
import os
import sys

HERE = os.path.dirname(os.path.dirname(os.path.abspath(__file__)))
sys.path.insert(0, HERE)
from lib import runner  # noqa: E402

claimed = [a for a in sys.argv[1:]] or sorted(json.load(open(os.path.join(HERE, "tools", "claims.json")))["claimed"])
bad = 0
for pid in claimed:
    spec = importlib.import_module("lib.props." + pid.lower()).SPEC
    ctx = runner.Ctx(spec, "quick", 1)
    for tr in spec.translators:
        try:
            tr(ctx)
        except runner.TieBroken as e:
            print("translator failed for %s: %s\n%s" % (pid, e.what, e.detail))
            bad += 1
sys.exit(1 if bad else 0)
