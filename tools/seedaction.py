#!/usr/bin/env python3
"""tools/seedaction.py <seed id> <text> — record the strengthening that followed a missed / not-concretely-found seeded change in seeded/HISTORY.json"""
import json, os, sys
p = os.path.join(os.path.dirname(os.path.dirname(os.path.abspath(__file__))), "seeded", "HISTORY.json")
h = json.load(open(p)); h["first_run"][sys.argv[1]]["action"] = sys.argv[2]
json.dump(h, open(p, "w"), indent=1); print("ok", sys.argv[1])
