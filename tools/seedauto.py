#!/usr/bin/env python3
"""tools/seedauto.py <tag e.g. c01r6> <PID> — for /tmp/seed-<tag>/{1,2}: run the property's quick check against the change (first-run
outcome), confirm the change independently (tools/seedverify.py: demo passes clean / fails with the patch, existing tests of the touched
modules pass) and store it with tools/storeseed.py. Placement of the demo is inferred from its README / package clause."""
import glob, json, os, re, subprocess, sys
tag, pid = sys.argv[1], sys.argv[2]
V = os.path.dirname(os.path.dirname(os.path.abspath(__file__)))
rnd = re.search(r"r(\d+)$", tag).group(1)


def moddir(path):
    d = path
    while d and not os.path.exists(os.path.join("/repo", d, "go.mod")):
        d = os.path.dirname(d)
    return d or "."


def pkgname(d):
    for f in sorted(glob.glob(os.path.join("/repo", d, "*.go"))):
        for line in open(f):
            m = re.match(r"package\s+(\w+)", line)
            if m:
                return re.sub(r"_test$", "", m.group(1))
    return None


for n in ("1", "2"):
    sd = "/tmp/seed-%s/%s" % (tag, n)
    if not os.path.exists(sd + "/patch.diff"):
        print(tag, n, "no patch.diff"); continue
    sid = "%s-r%s-%s" % (pid, rnd, n)
    r = subprocess.run([V + "/tools/seedrun.py", sd, pid], capture_output=True, text=True)
    lines = [l for l in r.stdout.splitlines() if not l.startswith("KNOWN")]
    viol = [l for l in lines if l.startswith("VIOLATION")]
    outcome = "missed" if not viol else ("no-failing-input-found" if "no-failing-input-found" in viol[0] else "detected")
    print("==", sid, outcome); print("\n".join(l[:220] for l in lines[:4]))
    # demo placement
    demos = [f for f in glob.glob(sd + "/demo/**/*.go", recursive=True)]
    if not demos:
        print("  no demo go files"); continue
    demo = sorted(demos, key=lambda f: ("e2e" in f, len(f)))[0]
    pk = re.sub(r"_test$", "", re.search(r"^package\s+(\w+)", open(demo).read(), re.M).group(1))
    texts = ""
    for f in glob.glob(sd + "/demo/**/README.md", recursive=True) + [sd + "/meta.json"]:
        texts += open(f).read() + "\n"
    rel = os.path.relpath(os.path.dirname(demo), sd + "/demo")
    cands = set(re.findall(r"[\w./-]+/[\w./-]+", texts)) | ({rel} if rel != "." else set())
    best = None
    for c in cands:
        c = c.strip("./`'\" ")
        c = re.sub(r"^(<tree>|\$WT|/tmp/seedwt-\w+)/", "", c)
        for d in (c, os.path.dirname(c)):
            if d and os.path.isdir(os.path.join("/repo", d)) and pkgname(d) == pk:
                if best is None or len(d) > len(best):
                    best = d
    if best is None:
        print("  cannot infer demo placement for package", pk); continue
    tests = re.findall(r"^func (Test\w+)", open(demo).read(), re.M)
    rx = os.path.commonprefix(tests) or tests[0]
    rx = re.sub(r"_+$", "", rx)
    if len(rx) < 8: rx = "|".join(tests)
    touched = {moddir(best)}
    for l in open(sd + "/patch.diff"):
        m = re.match(r"\+\+\+ b/(.*)", l)
        if m: touched.add(moddir(os.path.dirname(m.group(1))))
    vdir = sd
    if os.path.dirname(demo) != sd + "/demo":
        vdir = sd + "v"; os.makedirs(vdir + "/demo", exist_ok=True)
        for f in ("patch.diff", "meta.json"):
            subprocess.run(["cp", sd + "/" + f, vdir + "/"])
        subprocess.run(["cp", demo, vdir + "/demo/"])
    cmd = [V + "/tools/seedverify.py", vdir, moddir(best), best, rx, "--touched", ",".join(sorted(touched))]
    r = subprocess.run(cmd, capture_output=True, text=True)
    open(sd + "/confirmed.json", "w").write(r.stdout + r.stderr)
    try:
        conf = json.loads(r.stdout[r.stdout.index("{"):])
    except Exception:
        print("  verify produced no json:", (r.stdout + r.stderr)[-300:]); continue
    flags = {k: conf.get(k) for k in ("demo_passes_without_change", "patch_applies", "demo_fails_with_change", "existing_tests_pass_with_change")}
    print("  placement", best, "tests", rx, "touched", sorted(touched), flags)
    if all(v is True for v in flags.values()):
        subprocess.run([V + "/tools/storeseed.py", "seed-%s/%s" % (tag, n), sid, outcome] + (["(pending)"] if outcome != "detected" else []))
    else:
        print("  NOT stored (not confirmed)")
