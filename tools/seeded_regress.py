#!/usr/bin/env python3
"""tools/seeded_regress.py [id ...] — for every kept seeded change /verif/seeded/<id>/ (patch.diff + meta.json with "property"),
apply it in a throw-away worktree, run the property's quick check (and thorough with --thorough) against it, and record in
seeded/<id>/result.json whether it was detected (VIOLATION line) and with which replay kind."""
import json
import os
import subprocess
import sys

VERIF = os.path.dirname(os.path.dirname(os.path.abspath(__file__)))
ids = [a for a in sys.argv[1:] if not a.startswith("--")] or sorted(os.listdir(os.path.join(VERIF, "seeded")))
tiers = ["quick"] + (["thorough"] if "--thorough" in sys.argv else [])
jobs = int(sys.argv[sys.argv.index("--jobs") + 1]) if "--jobs" in sys.argv else 1
ids = [a for a in ids if not a.isdigit()]


def one(sid):
    d = os.path.join(VERIF, "seeded", sid)
    if not os.path.exists(os.path.join(d, "patch.diff")):
        return None
    meta = json.load(open(os.path.join(d, "meta.json")))
    pid = meta["property"]
    res = {"property": pid}
    for tier in tiers:
        r = subprocess.run([os.path.join(VERIF, "tools", "seedrun.py"), d, pid, "--tier", tier], capture_output=True, text=True)
        lines = r.stdout.splitlines()
        viol = [l for l in lines if l.startswith("VIOLATION")]
        applies = "PATCH DOES NOT APPLY" not in r.stdout
        res[tier] = {"detected": bool(viol), "concrete_replay": bool(viol) and "no-failing-input-found" not in viol[0],
                     "patch_applies": applies, "lines": [l[:300] for l in lines if not l.startswith("KNOWN")][:6]}
        if viol:
            break
    json.dump(res, open(os.path.join(d, "result.json"), "w"), indent=1)
    out = (sid, pid, {t: (res[t]["detected"], res[t]["concrete_replay"]) if res[t]["patch_applies"] else ("n/a", "patch no longer applies on HEAD") for t in res if t != "property"})
    print(*out, flush=True)
    return out


from concurrent.futures import ThreadPoolExecutor
with ThreadPoolExecutor(max_workers=jobs) as ex:
    summary = [r for r in ex.map(one, ids) if r]
missed = [s for s in summary if not any(v[0] for v in s[2].values())]
stale = [s for s in summary if any(v[0] == "n/a" for v in s[2].values())]
print("patch no longer applies (superseded by a fix commit on the same lines):", [m[0] for m in stale])
print("TOTAL %d detected %d missed %d: %s" % (len(summary), len(summary) - len(missed), len(missed), [m[0] for m in missed]))
