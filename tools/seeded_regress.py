#!/usr/bin/env python3
"""tools/seeded_regress.py [id ...] — for every kept seeded change /verif/seeded/<id>/ (patch.diff + meta.json with "property"),
apply it in a throw-away worktree, run the property's quick check (and thorough with --thorough) against it, and record in
seeded/<id>/result.json whether it was detected (VIOLATION line) and with which replay kind."""
import json
import os
import subprocess
import sys

VERIF = os.path.dirname(os.path.dirname(os.path.abspath(__file__)))
ids = [a for a in sys.argv[1:] if not a.startswith("--")] or sorted(os.listdir(os.path.join(VERIF, "seeded")))
tiers = ["quick"] + (["thorough"] if "--thorough" in sys.argv else [])
summary = []
for sid in ids:
    d = os.path.join(VERIF, "seeded", sid)
    if not os.path.exists(os.path.join(d, "patch.diff")):
        continue
    meta = json.load(open(os.path.join(d, "meta.json")))
    pid = meta["property"]
    res = {"property": pid}
    for tier in tiers:
        r = subprocess.run([os.path.join(VERIF, "tools", "seedrun.py"), d, pid, "--tier", tier], capture_output=True, text=True)
        lines = r.stdout.splitlines()
        viol = [l for l in lines if l.startswith("VIOLATION")]
        res[tier] = {"detected": bool(viol), "concrete_replay": bool(viol) and "no-failing-input-found" not in viol[0],
                     "lines": [l[:300] for l in lines[:6]]}
        if viol:
            break
    json.dump(res, open(os.path.join(d, "result.json"), "w"), indent=1)
    summary.append((sid, pid, {t: (res[t]["detected"], res[t]["concrete_replay"]) for t in res if t != "property"}))
    print(sid, pid, summary[-1][2], flush=True)
