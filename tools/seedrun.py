#!/usr/bin/env python3
"""tools/seedrun.py <seed dir with patch.diff> <PID> [--tier quick|thorough] [--keep]
Apply a seeded change in a throw-away worktree of /repo and run ./check <PID> against it (VERIF_REPO).
Prints the verdict lines; removes the worktree afterwards."""
import os
import subprocess
import sys

seed, pid = sys.argv[1], sys.argv[2]
tier = sys.argv[sys.argv.index("--tier") + 1] if "--tier" in sys.argv else "quick"
wt = "/tmp/seedrun-%s-%d" % (pid, os.getpid())
subprocess.run(["git", "-C", "/repo", "worktree", "add", "-f", "--detach", wt, "HEAD"], check=True, capture_output=True)
try:
    r = subprocess.run(["git", "-C", wt, "apply", os.path.join(os.path.abspath(seed), "patch.diff")], capture_output=True, text=True)
    if r.returncode != 0:
        # the lines around the change were touched by a later fix: commit: try a three-way merge on the recorded base blobs
        r2 = subprocess.run(["git", "-C", wt, "apply", "--3way", os.path.join(os.path.abspath(seed), "patch.diff")], capture_output=True, text=True)
        conflict = subprocess.run(["git", "-C", wt, "diff", "--name-only", "--diff-filter=U"], capture_output=True, text=True).stdout.strip()
        if r2.returncode != 0 or conflict:
            print("PATCH DOES NOT APPLY:", r.stderr[:300])
            sys.exit(2)
        print("NOTE: patch applied by three-way merge (context changed by a later fix)")
    env = dict(os.environ, VERIF_REPO=wt)
    r = subprocess.run(["./check", pid, "--tier", tier], cwd="/verif", env=env, capture_output=True, text=True)
    for line in r.stdout.splitlines():
        if line.startswith(("VIOLATION", "OK ", "KNOWN-FINDING", "BROKEN")):
            print(line[:600])
    print("exit", r.returncode)
finally:
    if "--keep" not in sys.argv:
        subprocess.run(["git", "-C", "/repo", "worktree", "remove", "--force", wt], capture_output=True)
        subprocess.run(["git", "-C", "/repo", "worktree", "prune"], capture_output=True)
