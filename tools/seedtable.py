#!/usr/bin/env python3
"""tools/seedtable.py — markdown table of every kept seeded change (seeded/<id>/meta.json, HISTORY.json first-run outcome,
result.json from the last tools/seeded_regress.py run) for DESIGN.md §10.6."""
import json, os
HERE = os.path.dirname(os.path.dirname(os.path.abspath(__file__)))
S = os.path.join(HERE, "seeded")
hist = json.load(open(os.path.join(S, "HISTORY.json")))["first_run"]
rows = []
stats = {}
import re as _re
def _sk(x):
    m = _re.match(r'(C\d+)-(?:r(\d+)-)?(.*)', x)
    return (m.group(1), int(m.group(2) or 1), m.group(3)) if m else (x, 0, '')
for sid in sorted(os.listdir(S), key=_sk):
    d = os.path.join(S, sid)
    if not os.path.exists(os.path.join(d, "meta.json")):
        continue
    m = json.load(open(os.path.join(d, "meta.json")))
    pid = m["property"]
    summ = " ".join(m.get("summary", "").split())
    if len(summ) > 210:
        summ = summ[:207] + "..."
    files = ", ".join(os.path.basename(f) for f in m.get("files_touched", [])[:3])
    h = hist.get(sid, {"outcome": "?", "action": ""})
    res = "not re-run"
    rp = os.path.join(d, "result.json")
    if os.path.exists(rp):
        r = json.load(open(rp))
        t = r.get("thorough") or r.get("quick") or {}
        if t.get("patch_applies") is False:
            res = "patch superseded by a fix on the same lines"
        elif t.get("detected"):
            res = "detected, concrete replay" if t.get("concrete_replay") else "detected, no-failing-input-found"
        else:
            res = "MISSED"
    rnd = "1" if "-r" not in sid and "-b" not in sid else ("b" if "-b" in sid else sid.split("-r")[1].split("-")[0])
    stats.setdefault(rnd, {"n": 0, "first": 0})
    stats[rnd]["n"] += 1
    stats[rnd]["first"] += h["outcome"] == "detected"
    rows.append("| %s | %s | %s | %s | %s | %s |" % (sid, files, summ.replace("|", "\\|"), h["outcome"], h["action"].replace("|", "\\|") or "-", res))
print("| id | file(s) | change | first run | strengthening after a miss | now |")
print("|---|---|---|---|---|---|")
print("\n".join(rows))
print()
print("| round | kept changes | detected with a concrete replay on the first run |")
print("|---|---|---|")
for k in sorted(stats, key=lambda r: (not str(r).isdigit(), int(r) if str(r).isdigit() else 0, str(r))):
    print("| %s | %d | %d |" % (k, stats[k]["n"], stats[k]["first"]))
