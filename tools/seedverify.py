#!/usr/bin/env python3
"""tools/seedverify.py <seeddir> <module dir> <pkg dir> <Test regex> [--go go1.26] [--modtests pkgpattern]
Independent confirmation of a seeded change in a throw-away worktree:
  demo passes on the pinned tree; patch applies and compiles; demo FAILS with the patch; existing tests of the module pass with the patch.
Prints a JSON summary (to paste into meta.json "confirmed")."""
import glob
import json
import os
import shutil
import subprocess
import sys

seed, module, pkg, rx = sys.argv[1:5]
go = sys.argv[sys.argv.index("--go") + 1] if "--go" in sys.argv else "go"
modtests = sys.argv[sys.argv.index("--modtests") + 1] if "--modtests" in sys.argv else "./..."
touched = sys.argv[sys.argv.index("--touched") + 1].split(",") if "--touched" in sys.argv else [module]
wt = "/tmp/seedverify-%d" % os.getpid()
env = dict(os.environ, GOFLAGS="-mod=mod", GOPROXY="off", GOSUMDB="off", GOTOOLCHAIN="local")
subprocess.run(["git", "-C", "/repo", "worktree", "add", "-f", "--detach", wt, "HEAD"], check=True, capture_output=True)
res = {}
try:
    demos = [f for f in glob.glob(os.path.join(seed, "demo", "*.go"))]
    for f in demos:
        shutil.copy(f, os.path.join(wt, pkg, os.path.basename(f)))
    rel = "./" + os.path.relpath(os.path.join(wt, pkg), os.path.join(wt, module)) + "/"

    def demo():
        r = subprocess.run([go, "test", "-vet=off", "-count=1", "-run", rx, rel], cwd=os.path.join(wt, module), env=env, capture_output=True, text=True, errors="replace")
        return r.returncode, (r.stdout + r.stderr)[-600:]
    rc, out = demo()
    res["demo_passes_without_change"] = rc == 0
    if rc != 0:
        res["demo_clean_output"] = out
    r = subprocess.run(["git", "-C", wt, "apply", os.path.abspath(os.path.join(seed, "patch.diff"))], capture_output=True, text=True, errors="replace")
    res["patch_applies"] = r.returncode == 0
    rc, out = demo()
    res["demo_fails_with_change"] = rc != 0 and "[build failed]" not in out
    res["demo_output_with_change"] = out[-300:]
    for f in demos:
        os.remove(os.path.join(wt, pkg, os.path.basename(f)))
    subprocess.run(["git", "-C", wt, "checkout", "--", "*/go.mod", "*/go.sum", "go.mod", "go.sum"], capture_output=True)
    ok = True
    for m in touched:
        r = subprocess.run([go, "test", "-vet=off", "-count=1", modtests], cwd=os.path.join(wt, m), env=env, capture_output=True, text=True, errors="replace")
        ok = ok and r.returncode == 0
        if r.returncode != 0:
            res.setdefault("existing_tests_output", {})[m] = (r.stdout + r.stderr)[-1500:]
    res["existing_tests_pass_with_change"] = ok
    res["ran"] = "%s test -vet=off -count=1 -run %s %s (in %s); %s test -vet=off -count=1 %s in each of %s" % (go, rx, rel, module, go, modtests, touched)
finally:
    subprocess.run(["git", "-C", "/repo", "worktree", "remove", "--force", wt], capture_output=True)
    subprocess.run(["git", "-C", "/repo", "worktree", "prune"], capture_output=True)
print(json.dumps(res, indent=1))
