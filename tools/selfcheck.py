#!/usr/bin/env python3
"""tools/selfcheck.py [--jobs N] [--no-setup] — what `vp check` does, run locally on /verif and /repo as they are: MANIFEST.setup_cmd, then
every check's quick command once with VERIF_SEED=1 VERIF_TIER=quick and its evidence file removed first (so the run has to rewrite it);
then every evidence file is validated against /root/.vp/EVIDENCE.schema.json. Prints one line per check and a verdict."""
import json, os, subprocess, sys, time
from concurrent.futures import ThreadPoolExecutor
V = os.path.dirname(os.path.dirname(os.path.abspath(__file__)))
jobs = int(sys.argv[sys.argv.index("--jobs") + 1]) if "--jobs" in sys.argv else 3
env = dict(os.environ, CARGO_NET_OFFLINE="true", GOPROXY="off", PIP_NO_INDEX="1", VERIF_SEED="1", VERIF_TIER="quick")
m = json.load(open(os.path.join(V, "MANIFEST.json")))
out = "/tmp/selfcheck"; os.makedirs(out, exist_ok=True)
bad = 0
if "--no-setup" not in sys.argv:
    t = time.time()
    r = subprocess.run(m["setup_cmd"], shell=True, cwd=V, env=env, capture_output=True, text=True)
    open(out + "/setup.log", "w").write(r.stdout + r.stderr)
    print("setup exit=%d wall=%.0fs" % (r.returncode, time.time() - t), flush=True)
    bad += r.returncode != 0


def one(c):
    pid = c["property_id"]
    ev = c["evidence_file"]
    if os.path.exists(ev):
        os.remove(ev)
    t = time.time()
    r = subprocess.run(c["quick_cmd"], shell=True, cwd=V, env=env, capture_output=True, text=True)
    open("%s/%s.log" % (out, pid), "w").write(r.stdout + r.stderr)
    viol = [l for l in r.stdout.splitlines() if l.startswith("VIOLATION")]
    return pid, r.returncode, time.time() - t, len(viol), os.path.exists(ev)


with ThreadPoolExecutor(max_workers=jobs) as ex:
    for pid, rc, wall, nv, ev in ex.map(one, m["checks"]):
        ok = rc == 0 and nv == 0 and ev
        bad += not ok
        print("%s exit=%d wall=%.0fs violation_lines=%d evidence=%s %s" % (pid, rc, wall, nv, "written" if ev else "MISSING", "" if ok else "<== ATTENTION"), flush=True)
r = subprocess.run(["python3-vt", "-c", """
import json, jsonschema, glob
s = json.load(open('/root/.vp/EVIDENCE.schema.json')); bad = 0
for f in sorted(glob.glob('/verif/evidence/C*.json')):
    try: jsonschema.validate(json.load(open(f)), s)
    except Exception as e: bad += 1; print('EVIDENCE INVALID', f, str(e)[:300])
print('evidence files valid: %d of %d' % (len(glob.glob('/verif/evidence/C*.json')) - bad, len(glob.glob('/verif/evidence/C*.json'))))
raise SystemExit(1 if bad else 0)
"""], capture_output=True, text=True)
print(r.stdout.strip()); bad += r.returncode != 0
print("SELFCHECK", "OK" if not bad else "NEEDS ATTENTION (%d)" % bad)
sys.exit(1 if bad else 0)
