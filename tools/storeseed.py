#!/usr/bin/env python3
"""tools/storeseed.py <seed dir under /tmp, e.g. seed-c09r4/1> <id, e.g. C09-r4-1> <detected|missed|no-failing-input-found> [action text]
Copies a coordinator-confirmed seeded change (patch.diff, demo*/, meta.json + confirmed.json) to seeded/<id>/ and records the first-run outcome."""
import json, os, shutil, sys
s, sid, outcome = sys.argv[1:4]
action = sys.argv[4] if len(sys.argv) > 4 else ""
root = os.path.dirname(os.path.dirname(os.path.abspath(__file__)))
sdir = os.path.join("/tmp", s); d = os.path.join(root, "seeded", sid)
txt = open(sdir + "/confirmed.json").read(); conf = json.loads(txt[txt.index("{"):])
need = ("demo_passes_without_change", "patch_applies", "demo_fails_with_change", "existing_tests_pass_with_change")
if not all(conf.get(k) is True for k in need):
    sys.exit("not confirmed: %s" % {k: conf.get(k) for k in need})
if os.path.exists(d): shutil.rmtree(d)
os.makedirs(d); shutil.copy(sdir + "/patch.diff", d)
for e in os.listdir(sdir):
    if e.startswith("demo") and os.path.isdir(os.path.join(sdir, e)): shutil.copytree(os.path.join(sdir, e), os.path.join(d, e))
meta = json.load(open(sdir + "/meta.json"))
meta["confirmed_by_coordinator"] = {k: v for k, v in conf.items() if not k.endswith("output") and not k.endswith("_output_with_change")}
json.dump(meta, open(d + "/meta.json", "w"), indent=1)
hp = os.path.join(root, "seeded", "HISTORY.json"); h = json.load(open(hp))
h["first_run"][sid] = {"outcome": outcome, "action": action}
json.dump(h, open(hp, "w"), indent=1)
print("stored", sid, outcome)
