// c03shape regenerates lean/OtelVerif/Gen/C03Shape.lean from the exporter helper's shutdown path:
//
//	exporter/exporterhelper/internal/base_exporter.go            BaseExporter.Shutdown, NewBaseExporter (sender chain order)
//	exporter/exporterhelper/internal/retry_sender.go             retrySender.Shutdown, the select structure of retrySender.Send
//	exporter/exporterhelper/internal/queue_sender.go             newQueueBatchConfig (the configuration a legacy batcher without queue gets)
//	exporter/exporterhelper/internal/queuebatch/queue_batch.go   QueueBatch.Shutdown, QueueBatch.Start, newQueueBatch (forced consumers, worker pool, queue kind)
//	exporter/exporterhelper/internal/queuebatch/async_queue.go   asyncQueue.Shutdown, the consumer loop of asyncQueue.Start
//	exporter/exporterhelper/internal/queuebatch/memory_queue.go  memoryQueue.Read, memoryQueue.Shutdown
//	exporter/exporterhelper/internal/queuebatch/persistent_queue.go persistentQueue.Read, persistentQueue.Shutdown
//	exporter/exporterhelper/internal/queuebatch/default_batcher.go Shutdown, flush, flushCurrentBatchIfNecessary, timer goroutine
//	exporter/exporterhelper/internal/queuebatch/disabled_batcher.go Consume
//
// What is extracted is the CONTROL SKELETON of each function: in source order, one token per call, return, go, defer, if/for
// condition, select/case, channel receive/send, close and assignment to a field.  The root receiver identifier is dropped
// (`be.RetrySender.Shutdown(ctx)` -> "RetrySender.Shutdown").  Only data is emitted (lists of strings); Model/C03Shape.lean
// interprets it (phase order of the shutdown goroutine, read/exit rules of the two queues, worker-pool protocol) and
// Props/C03Shape.lean proves that the LTS of Model/C03.lean has exactly that order.  Exit 2 when a function is missing or contains a
// syntactic form the tokeniser does not know ("the tie no longer checks").
package main

import (
	"fmt"
	"go/ast"
	"go/parser"
	"go/token"
	"os"
	"path/filepath"
	"strings"
)

func die(format string, a ...any) {
	fmt.Fprintf(os.Stderr, "c03shape: "+format+"\n", a...)
	os.Exit(2)
}

func parse(path string) *ast.File {
	f, err := parser.ParseFile(token.NewFileSet(), path, nil, 0)
	if err != nil {
		die("%v", err)
	}
	return f
}

// receiver type name of a method (generic receivers included)
func recvName(fd *ast.FuncDecl) string {
	if fd.Recv == nil || len(fd.Recv.List) == 0 {
		return ""
	}
	t := fd.Recv.List[0].Type
	for {
		switch x := t.(type) {
		case *ast.StarExpr:
			t = x.X
		case *ast.IndexExpr:
			t = x.X
		case *ast.IndexListExpr:
			t = x.X
		case *ast.Ident:
			return x.Name
		default:
			return ""
		}
	}
}

func findFunc(f *ast.File, recv, name string) *ast.FuncDecl {
	for _, d := range f.Decls {
		if fd, ok := d.(*ast.FuncDecl); ok && fd.Name.Name == name && recvName(fd) == recv && fd.Body != nil {
			return fd
		}
	}
	die("func %s.%s not found", recv, name)
	return nil
}

// names that are receivers / locals standing for "this object": dropped at the root of a selector chain
func rootNames(fd *ast.FuncDecl) map[string]bool {
	m := map[string]bool{}
	if fd.Recv != nil {
		for _, fl := range fd.Recv.List {
			for _, n := range fl.Names {
				m[n.Name] = true
			}
		}
	}
	return m
}

type tok struct {
	roots map[string]bool
	where string
	full  bool // render call arguments and keep the receiver (used where WHAT is passed matters: refCountDone.OnDone)
}

// compact rendering of an expression
func (t *tok) expr(e ast.Expr) string {
	switch x := e.(type) {
	case *ast.Ident:
		return x.Name
	case *ast.BasicLit:
		return x.Value
	case *ast.SelectorExpr:
		if id, ok := x.X.(*ast.Ident); ok && t.roots[id.Name] && !t.full {
			return x.Sel.Name
		}
		return t.expr(x.X) + "." + x.Sel.Name
	case *ast.CallExpr:
		if t.full {
			as := make([]string, len(x.Args))
			for i, a := range x.Args {
				as[i] = t.expr(a)
			}
			return t.expr(x.Fun) + "(" + strings.Join(as, ",") + ")"
		}
		return t.expr(x.Fun) + "()"
	case *ast.ParenExpr:
		return "(" + t.expr(x.X) + ")"
	case *ast.UnaryExpr:
		if x.Op == token.ARROW {
			return "recv:" + t.expr(x.X)
		}
		return x.Op.String() + t.expr(x.X)
	case *ast.BinaryExpr:
		return t.expr(x.X) + x.Op.String() + t.expr(x.Y)
	case *ast.StarExpr:
		return "*" + t.expr(x.X)
	case *ast.IndexExpr:
		return t.expr(x.X) + "[" + t.expr(x.Index) + "]"
	case *ast.IndexListExpr:
		return t.expr(x.X) + "[..]"
	case *ast.CompositeLit:
		return "lit"
	case *ast.FuncLit:
		return "func"
	case *ast.TypeAssertExpr:
		return t.expr(x.X) + ".(type)"
	case *ast.SliceExpr:
		return t.expr(x.X) + "[:]"
	case *ast.KeyValueExpr:
		return t.expr(x.Key) + ":" + t.expr(x.Value)
	}
	die("%s: unknown expression form %T", t.where, e)
	return ""
}

// control skeleton of a block, in source order
func (t *tok) tokens(n ast.Node, keep func(string) bool) []string {
	var out []string
	add := func(s string) {
		if keep == nil || keep(s) {
			out = append(out, s)
		}
	}
	ast.Inspect(n, func(n ast.Node) bool {
		switch x := n.(type) {
		case *ast.ReturnStmt:
			// the calls of the returned expressions come BEFORE the return token (they are evaluated first)
			for _, r := range x.Results {
				for _, s := range t.tokens(r, keep) {
					out = append(out, s)
				}
			}
			add("return")
			return false
		case *ast.GoStmt:
			add("go")
		case *ast.DeferStmt:
			add("defer")
		case *ast.IfStmt:
			add("if:" + t.expr(x.Cond))
		case *ast.ForStmt:
			if x.Cond != nil {
				add("for:" + t.expr(x.Cond))
			} else {
				add("for")
			}
		case *ast.RangeStmt:
			add("range:" + t.expr(x.X))
		case *ast.SelectStmt:
			add("select")
		case *ast.SwitchStmt, *ast.TypeSwitchStmt:
			add("switch")
		case *ast.CommClause:
			if x.Comm == nil {
				add("default")
			} else {
				switch c := x.Comm.(type) {
				case *ast.ExprStmt:
					add("case:" + t.expr(c.X))
				case *ast.AssignStmt:
					add("case:" + t.expr(c.Rhs[0]))
				case *ast.SendStmt:
					add("case:send:" + t.expr(c.Chan))
				default:
					die("%s: unknown comm clause %T", t.where, x.Comm)
				}
			}
		case *ast.SendStmt:
			add("send:" + t.expr(x.Chan))
		case *ast.UnaryExpr:
			if x.Op == token.ARROW {
				add("recv:" + t.expr(x.X))
			}
		case *ast.CallExpr:
			if id, ok := x.Fun.(*ast.Ident); ok && id.Name == "close" && len(x.Args) == 1 {
				add("close:" + t.expr(x.Args[0]))
			} else if t.full {
				add(t.expr(x))
			} else {
				add(t.expr(x.Fun))
			}
		case *ast.AssignStmt:
			for i, l := range x.Lhs {
				if se, ok := l.(*ast.SelectorExpr); ok {
					rhs := "?"
					if len(x.Rhs) == len(x.Lhs) {
						rhs = t.expr(x.Rhs[i])
					}
					op := x.Tok.String() // "=", "-=", "+=" …
					add("set:" + t.expr(se) + op + rhs)
				}
			}
		case *ast.IncDecStmt:
			add("set:" + t.expr(x.X) + x.Tok.String())
		}
		return true
	})
	return out
}

func lit(ss []string) string {
	q := make([]string, len(ss))
	for i, s := range ss {
		if strings.ContainsAny(s, "\"\\\n") {
			die("token %q cannot be emitted", s)
		}
		q[i] = "\"" + s + "\""
	}
	return "[" + strings.Join(q, ", ") + "]"
}

func main() {
	if len(os.Args) < 2 {
		die("usage: c03shape <repo>")
	}
	base := filepath.Join(os.Args[1], "exporter/exporterhelper/internal")
	be := parse(filepath.Join(base, "base_exporter.go"))
	rs := parse(filepath.Join(base, "retry_sender.go"))
	qsnd := parse(filepath.Join(base, "queue_sender.go"))
	qb := parse(filepath.Join(base, "queuebatch/queue_batch.go"))
	aq := parse(filepath.Join(base, "queuebatch/async_queue.go"))
	mq := parse(filepath.Join(base, "queuebatch/memory_queue.go"))
	pq := parse(filepath.Join(base, "queuebatch/persistent_queue.go"))
	db := parse(filepath.Join(base, "queuebatch/default_batcher.go"))
	xb := parse(filepath.Join(base, "queuebatch/disabled_batcher.go"))

	type item struct {
		name, doc string
		toks []string
	}
	var items []item
	emit := func(name, doc string, f *ast.File, recv, fn string, keep func(string) bool) {
		fd := findFunc(f, recv, fn)
		t := &tok{roots: rootNames(fd), where: recv + "." + fn, full: recv == "refCountDone" || recv == "multiDone"}
		if fn == "NewBaseExporter" {
			t.roots["be"] = true // the object under construction
		}
		items = append(items, item{name, doc, t.tokens(fd.Body, keep)})
	}
	pre := func(prefixes ...string) func(string) bool {
		return func(s string) bool {
			for _, p := range prefixes {
				if strings.HasPrefix(s, p) {
					return true
				}
			}
			return false
		}
	}

	emit("baseShutdown", "`BaseExporter.Shutdown` (base_exporter.go), whole skeleton", be, "BaseExporter", "Shutdown", nil)
	emit("baseStart", "`BaseExporter.Start`, whole skeleton", be, "BaseExporter", "Start", nil)
	emit("baseChain", "`NewBaseExporter`: the assignments that build the sender chain, innermost first", be, "", "NewBaseExporter",
		pre("set:firstSender", "set:RetrySender=", "set:QueueSender", "if:timeoutCfg", "if:retryCfg", "if:queueCfg"))
	emit("retryShutdown", "`retrySender.Shutdown`", rs, "retrySender", "Shutdown", nil)
	emit("retrySelects", "`retrySender.Send`: the select statements of the retry loop (stop check first, then the back-off wait)", rs, "retrySender", "Send",
		pre("select", "case:", "default", "for"))
	emit("legacyQueueCfg", "`newQueueBatchConfig` (queue_sender.go): skeleton; the composite literal returned for a legacy batcher WITHOUT queue is `legacyLit`",
		qsnd, "", "newQueueBatchConfig", nil)
	emit("queueBatchShutdown", "`QueueBatch.Shutdown` (queue_batch.go)", qb, "QueueBatch", "Shutdown", nil)
	emit("queueBatchStart", "`QueueBatch.Start`", qb, "QueueBatch", "Start", nil)
	emit("newQueueBatch", "`newQueueBatch`: conditions, forced settings and constructor calls", qb, "", "newQueueBatch",
		pre("if:", "set:cfg.", "newDefaultBatcher", "newDisabledBatcher", "newAsyncQueue", "newMemoryQueue", "newPersistentQueue", "newObsQueue"))
	emit("asyncShutdown", "`asyncQueue.Shutdown` (async_queue.go)", aq, "asyncQueue", "Shutdown", nil)
	emit("asyncStart", "`asyncQueue.Start`: consumer goroutines", aq, "asyncQueue", "Start", nil)
	emit("memoryRead", "`memoryQueue.Read` (memory_queue.go)", mq, "memoryQueue", "Read", nil)
	emit("memoryShutdown", "`memoryQueue.Shutdown`", mq, "memoryQueue", "Shutdown", nil)
	emit("persistentRead", "`persistentQueue.Read` (persistent_queue.go)", pq, "persistentQueue", "Read", nil)
	emit("persistentShutdown", "`persistentQueue.Shutdown`", pq, "persistentQueue", "Shutdown", nil)
	emit("persistentUnref", "`persistentQueue.unrefClient`", pq, "persistentQueue", "unrefClient", nil)
	emit("persistentOnDone", "`persistentQueue.onDone`: size release, the shutdown-error branch (item kept), deletion otherwise", pq, "persistentQueue", "onDone",
		pre("set:queueSize", "if:queueSize<0", "if:experr.IsShutdownErr", "experr.IsShutdownErr", "return", "itemDispatchingFinish", "unrefClient", "defer"))
	emit("refCountOnDone", "`refCountDone.OnDone` (default_batcher.go): errors of ALL parts joined, the request's Done fires with the last part", db, "refCountDone", "OnDone", nil)
	emit("multiOnDone", "`multiDone.OnDone`: every request merged into a batch receives the batch's outcome", db, "multiDone", "OnDone", nil)
	emit("batcherShutdown", "`defaultBatcher.Shutdown` (default_batcher.go)", db, "defaultBatcher", "Shutdown", nil)
	emit("batcherFlush", "`defaultBatcher.flush`", db, "defaultBatcher", "flush", nil)
	emit("batcherFlushCurrent", "`defaultBatcher.flushCurrentBatchIfNecessary`", db, "defaultBatcher", "flushCurrentBatchIfNecessary", nil)
	emit("batcherTimer", "`defaultBatcher.startTimeBasedFlushingGoroutine`", db, "defaultBatcher", "startTimeBasedFlushingGoroutine", nil)
	emit("batcherStart", "`defaultBatcher.Start`", db, "defaultBatcher", "Start", nil)
	emit("batcherNewPool", "`newDefaultBatcher`: worker pool construction", db, "", "newDefaultBatcher", pre("if:", "for:", "send:", "make"))
	emit("disabledConsume", "`disabledBatcher.Consume` (disabled_batcher.go)", xb, "disabledBatcher", "Consume", nil)

	// key/value pairs of the composite literals that matter for the configuration glue
	kvs := func(f *ast.File, recv, fn, typ string, which int) []string {
		fd := findFunc(f, recv, fn)
		t := &tok{roots: rootNames(fd), where: recv + "." + fn}
		var found [][]string
		ast.Inspect(fd.Body, func(n ast.Node) bool {
			cl, ok := n.(*ast.CompositeLit)
			if !ok || cl.Type == nil || !strings.HasSuffix(strings.TrimSuffix(t.expr(cl.Type), "[..]"), typ) &&
				!strings.Contains(t.expr(cl.Type), typ) {
				return true
			}
			var row []string
			for _, el := range cl.Elts {
				kv, ok := el.(*ast.KeyValueExpr)
				if !ok {
					die("%s: positional composite literal %s", t.where, typ)
				}
				v := t.expr(kv.Value)
				if _, isLit := kv.Value.(*ast.CompositeLit); isLit || strings.HasPrefix(v, "&lit") {
					v = "lit"
				}
				row = append(row, t.expr(kv.Key)+"="+v)
			}
			found = append(found, row)
			return true
		})
		if which >= len(found) {
			die("%s: composite literal #%d of %s not found (have %d)", recv+"."+fn, which, typ, len(found))
		}
		return found[which]
	}
	items = append(items,
		item{"legacyLit", "`newQueueBatchConfig`: fields of the `queuebatch.Config` returned when only the legacy batcher is enabled",
			kvs(qsnd, "", "newQueueBatchConfig", "queuebatch.Config", 0)},
		item{"batcherSettingsOld", "`newQueueBatch`: `batcherSettings` of the legacy batcher", kvs(qb, "", "newQueueBatch", "batcherSettings", 0)},
		item{"batcherSettingsNew", "`newQueueBatch`: `batcherSettings` of `sending_queue::batch`", kvs(qb, "", "newQueueBatch", "batcherSettings", 1)},
		item{"memorySettings", "`newQueueBatch`: `memoryQueueSettings`", kvs(qb, "", "newQueueBatch", "memoryQueueSettings", 0)},
		item{"persistentSettings", "`newQueueBatch`: `persistentQueueSettings`", kvs(qb, "", "newQueueBatch", "persistentQueueSettings", 0)},
	)

	// arguments of the two newAsyncQueue calls (queue, number of consumers, consume function)
	{
		fd := findFunc(qb, "", "newQueueBatch")
		t := &tok{roots: rootNames(fd), where: "newQueueBatch"}
		var rows []string
		ast.Inspect(fd.Body, func(n ast.Node) bool {
			c, ok := n.(*ast.CallExpr)
			if !ok {
				return true
			}
			if id, ok := c.Fun.(*ast.Ident); ok && id.Name == "newAsyncQueue" {
				if len(c.Args) != 3 {
					die("newAsyncQueue: %d arguments", len(c.Args))
				}
				rows = append(rows, t.expr(c.Args[0])+";"+t.expr(c.Args[1])+";"+t.expr(c.Args[2]))
			}
			return true
		})
		items = append(items, item{"asyncQueueArgs", "`newQueueBatch`: arguments `queue;consumers;consumeFunc` of every `newAsyncQueue` call", rows})
	}

	fmt.Println("/- GENERATED by /verif/translators/cmd/c03shape from exporter/exporterhelper/internal/{base_exporter,retry_sender,queue_sender}.go and")
	fmt.Println("   queuebatch/{queue_batch,async_queue,memory_queue,persistent_queue,default_batcher,disabled_batcher}.go — do not edit.")
	fmt.Println("   Control skeletons in source order: one token per call / return / go / defer / if / for / select / case / receive / send / close / field assignment. -/")
	fmt.Println("namespace OtelVerif.Gen.C03Shape")
	for _, it := range items {
		fmt.Printf("\n/-- %s -/\ndef %s : List String :=\n  %s\n", it.doc, it.name, lit(it.toks))
	}
	fmt.Println("\nend OtelVerif.Gen.C03Shape")
}
