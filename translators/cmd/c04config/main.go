// c04config regenerates lean/OtelVerif/Gen/C04Config.lean from
//
//	exporter/exporterhelper/internal/queuebatch/config.go   (*Config).Validate, (*BatchConfig).Validate, struct fields
//	exporter/exporterhelper/internal/queue_sender.go        (*BatcherConfig).Validate, NewDefaultQueueConfig,
//	                                                        NewDefaultBatcherConfig, struct fields
//
// The Validate functions must be chains of `if <cond> { return nil | errors.New(..) | fmt.Errorf(..) }` followed by
// `return nil`; conditions are built from && || ! ( ) < <= > >= == != over receiver fields, integer literals, nil and
// request.SizerType{Requests,Items,Bytes}.  They are emitted as DATA (lists of VRule) interpreted by
// Model/C04Config.lean; the theorems of Props/C04.lean are about these lists.  Anything else => exit 2.
package main

import (
	"fmt"
	"go/ast"
	"go/parser"
	"go/token"
	"os"
	"path/filepath"
	"strconv"
	"strings"
)

func die(format string, a ...any) {
	fmt.Fprintf(os.Stderr, "c04config: "+format+"\n", a...)
	os.Exit(2)
}

func parse(path string) *ast.File {
	f, err := parser.ParseFile(token.NewFileSet(), path, nil, 0)
	if err != nil {
		die("%v", err)
	}
	return f
}

var sizerCodes = map[string]int{"SizerTypeRequests": 0, "SizerTypeItems": 1, "SizerTypeBytes": 2}

type field struct {
	name string
	kind string // int bool ptr sizer
}

// structFields: the fields of `type <name> struct`, embedded structs of the same file flattened
func structFields(f *ast.File, name string) []field {
	for _, d := range f.Decls {
		gd, ok := d.(*ast.GenDecl)
		if !ok {
			continue
		}
		for _, s := range gd.Specs {
			ts, ok := s.(*ast.TypeSpec)
			if !ok || ts.Name.Name != name {
				continue
			}
			st, ok := ts.Type.(*ast.StructType)
			if !ok {
				die("type %s is not a struct", name)
			}
			var out []field
			for _, fl := range st.Fields.List {
				if len(fl.Names) == 0 {
					id, ok := fl.Type.(*ast.Ident)
					if !ok {
						die("type %s: unsupported embedded field", name)
					}
					out = append(out, structFields(f, id.Name)...)
					continue
				}
				kind := ""
				switch t := fl.Type.(type) {
				case *ast.Ident:
					switch t.Name {
					case "bool":
						kind = "bool"
					case "int", "int64", "int32":
						kind = "int"
					}
				case *ast.SelectorExpr:
					if x, ok := t.X.(*ast.Ident); ok {
						switch x.Name + "." + t.Sel.Name {
						case "time.Duration":
							kind = "int"
						case "request.SizerType":
							kind = "sizer"
						}
					}
				case *ast.StarExpr:
					kind = "ptr"
				}
				if kind == "" {
					die("type %s: field %s has an unsupported type", name, fl.Names[0].Name)
				}
				for _, n := range fl.Names {
					out = append(out, field{n.Name, kind})
				}
			}
			return out
		}
	}
	die("type %s not found", name)
	return nil
}

func findFunc(f *ast.File, recvType, name string) *ast.FuncDecl {
	for _, d := range f.Decls {
		fd, ok := d.(*ast.FuncDecl)
		if !ok || fd.Name.Name != name || fd.Body == nil {
			continue
		}
		if recvType == "" {
			if fd.Recv == nil {
				return fd
			}
			continue
		}
		if fd.Recv == nil || len(fd.Recv.List) != 1 {
			continue
		}
		t := fd.Recv.List[0].Type
		if se, ok := t.(*ast.StarExpr); ok {
			t = se.X
		}
		if id, ok := t.(*ast.Ident); ok && id.Name == recvType {
			return fd
		}
	}
	die("func (%s).%s not found", recvType, name)
	return nil
}

type conv struct {
	recv   string
	fields map[string]string
	where  string
}

func (c *conv) expr(e ast.Expr) (string, string) { // lean term, kind
	switch x := e.(type) {
	case *ast.ParenExpr:
		return c.expr(x.X)
	case *ast.BasicLit:
		if x.Kind == token.INT {
			v, err := strconv.ParseInt(strings.ReplaceAll(x.Value, "_", ""), 0, 64)
			if err != nil {
				die("%s: literal %s", c.where, x.Value)
			}
			return fmt.Sprintf("(.lit %d)", v), "int"
		}
	case *ast.Ident:
		if x.Name == "nil" {
			return ".nil", "ptr"
		}
		if x.Name == c.recv {
			return "(.fld \"self\")", "ptr"
		}
	case *ast.SelectorExpr:
		if id, ok := x.X.(*ast.Ident); ok {
			if id.Name == c.recv {
				k, ok := c.fields[x.Sel.Name]
				if !ok {
					die("%s: unknown field %s", c.where, x.Sel.Name)
				}
				return fmt.Sprintf("(.fld %q)", x.Sel.Name), k
			}
			if id.Name == "request" {
				if code, ok := sizerCodes[x.Sel.Name]; ok {
					return fmt.Sprintf("(.sizer %d)", code), "sizer"
				}
			}
		}
	}
	die("%s: unsupported operand", c.where)
	return "", ""
}

var cmpOps = map[token.Token]string{token.LSS: ".lt", token.LEQ: ".le", token.GTR: ".gt", token.GEQ: ".ge", token.EQL: ".eq", token.NEQ: ".ne"}

func (c *conv) cond(e ast.Expr) string {
	switch x := e.(type) {
	case *ast.ParenExpr:
		return c.cond(x.X)
	case *ast.UnaryExpr:
		if x.Op == token.NOT {
			return "(.not " + c.cond(x.X) + ")"
		}
	case *ast.BinaryExpr:
		switch x.Op {
		case token.LAND:
			return "(.and " + c.cond(x.X) + " " + c.cond(x.Y) + ")"
		case token.LOR:
			return "(.or " + c.cond(x.X) + " " + c.cond(x.Y) + ")"
		}
		if op, ok := cmpOps[x.Op]; ok {
			a, ka := c.expr(x.X)
			b, kb := c.expr(x.Y)
			if ka != kb {
				die("%s: comparison of a %s with a %s", c.where, ka, kb)
			}
			if (ka == "ptr" || ka == "sizer") && x.Op != token.EQL && x.Op != token.NEQ {
				die("%s: ordered comparison of a %s", c.where, ka)
			}
			return fmt.Sprintf("(.cmp %s %s %s)", op, a, b)
		}
	case *ast.SelectorExpr:
		t, k := c.expr(x)
		if k != "bool" {
			die("%s: non-bool field used as a condition", c.where)
		}
		return "(.isTrue " + t + ")"
	}
	die("%s: unsupported condition", c.where)
	return ""
}

// rules: the body of a Validate function as a list of VRule
func rules(fd *ast.FuncDecl, fields []field, where string) []string {
	c := &conv{fields: map[string]string{}, where: where}
	if len(fd.Recv.List[0].Names) != 1 {
		die("%s: receiver without a name", where)
	}
	c.recv = fd.Recv.List[0].Names[0].Name
	for _, f := range fields {
		c.fields[f.name] = f.kind
	}
	isNilReturn := func(s ast.Stmt) (bool, bool) { // (is a return, returns nil)
		rs, ok := s.(*ast.ReturnStmt)
		if !ok || len(rs.Results) != 1 {
			return false, false
		}
		if id, ok := rs.Results[0].(*ast.Ident); ok && id.Name == "nil" {
			return true, true
		}
		if ce, ok := rs.Results[0].(*ast.CallExpr); ok {
			if se, ok := ce.Fun.(*ast.SelectorExpr); ok {
				if id, ok := se.X.(*ast.Ident); ok && (id.Name == "errors" && se.Sel.Name == "New" || id.Name == "fmt" && se.Sel.Name == "Errorf") {
					return true, false
				}
			}
		}
		return false, false
	}
	var out []string
	body := fd.Body.List
	if len(body) == 0 {
		die("%s: empty body", where)
	}
	for _, s := range body[:len(body)-1] {
		is, ok := s.(*ast.IfStmt)
		if !ok || is.Init != nil || is.Else != nil || len(is.Body.List) != 1 {
			die("%s: statement is not `if cond { return … }`", where)
		}
		ret, isNil := isNilReturn(is.Body.List[0])
		if !ret {
			die("%s: if body is not a return of nil / errors.New / fmt.Errorf", where)
		}
		out = append(out, fmt.Sprintf("⟨%s, %v⟩", c.cond(is.Cond), isNil))
	}
	if ret, isNil := isNilReturn(body[len(body)-1]); !ret || !isNil {
		die("%s: does not end in `return nil`", where)
	}
	return out
}

// literal: a `return T{K: V, …}` as field values (nested struct literals of embedded structs flattened)
func literal(fd *ast.FuncDecl, fields []field, where string) map[string]int64 {
	if len(fd.Body.List) != 1 {
		die("%s: body is not a single return", where)
	}
	rs, ok := fd.Body.List[0].(*ast.ReturnStmt)
	if !ok || len(rs.Results) != 1 {
		die("%s: body is not a single return", where)
	}
	kinds := map[string]string{}
	for _, f := range fields {
		kinds[f.name] = f.kind
	}
	vals := map[string]int64{}
	var lit func(e ast.Expr)
	var value func(e ast.Expr, kind string) int64
	value = func(e ast.Expr, kind string) int64 {
		switch x := e.(type) {
		case *ast.ParenExpr:
			return value(x.X, kind)
		case *ast.BasicLit:
			if x.Kind == token.INT && kind == "int" {
				v, err := strconv.ParseInt(strings.ReplaceAll(x.Value, "_", ""), 0, 64)
				if err == nil {
					return v
				}
			}
		case *ast.Ident:
			switch {
			case x.Name == "true" && kind == "bool":
				return 1
			case x.Name == "false" && kind == "bool":
				return 0
			case x.Name == "nil" && kind == "ptr":
				return 0
			}
		case *ast.BinaryExpr:
			if x.Op == token.MUL && kind == "int" {
				return value(x.X, kind) * value(x.Y, kind)
			}
		case *ast.SelectorExpr:
			if id, ok := x.X.(*ast.Ident); ok {
				if id.Name == "time" && kind == "int" {
					switch x.Sel.Name {
					case "Nanosecond":
						return 1
					case "Microsecond":
						return 1000
					case "Millisecond":
						return 1000000
					case "Second":
						return 1000000000
					}
				}
				if id.Name == "request" && kind == "sizer" {
					if c, ok := sizerCodes[x.Sel.Name]; ok {
						return int64(c)
					}
				}
			}
		}
		die("%s: unsupported value in the struct literal", where)
		return 0
	}
	lit = func(e ast.Expr) {
		cl, ok := e.(*ast.CompositeLit)
		if !ok {
			die("%s: not a struct literal", where)
		}
		for _, el := range cl.Elts {
			kv, ok := el.(*ast.KeyValueExpr)
			if !ok {
				die("%s: unkeyed struct literal", where)
			}
			k := kv.Key.(*ast.Ident).Name
			if _, nested := kv.Value.(*ast.CompositeLit); nested {
				if _, isField := kinds[k]; isField {
					die("%s: struct literal for the field %s", where, k)
				}
				lit(kv.Value)
				continue
			}
			kind, ok := kinds[k]
			if !ok {
				die("%s: unknown field %s", where, k)
			}
			vals[k] = value(kv.Value, kind)
		}
	}
	lit(rs.Results[0])
	return vals
}

func emitFields(name string, fields []field, doc string) {
	var q []string
	for _, f := range fields {
		q = append(q, fmt.Sprintf("(%q, %q)", f.name, f.kind))
	}
	fmt.Printf("/-- %s: (field, kind) in source order -/\ndef %s : List (String × String) := [%s]\n\n", doc, name, strings.Join(q, ", "))
}

func emitRules(name string, rs []string, doc string) {
	fmt.Printf("/-- %s -/\ndef %s : List VRule := [\n  %s\n]\n\n", doc, name, strings.Join(rs, ",\n  "))
}

func emitLiteral(name string, fields []field, vals map[string]int64, doc string) {
	var q []string
	for _, f := range fields {
		v, ok := vals[f.name]
		if !ok && f.kind == "sizer" {
			v = 3 // the zero request.SizerType{}
		}
		q = append(q, fmt.Sprintf("(%q, %d)", f.name, v))
	}
	fmt.Printf("/-- %s: every field of the struct, zero value unless the literal sets it -/\ndef %s : List (String × Int) := [%s]\n\n", doc, name, strings.Join(q, ", "))
}

func main() {
	repo := os.Args[1]
	cfgFile := parse(filepath.Join(repo, "exporter/exporterhelper/internal/queuebatch/config.go"))
	qsFile := parse(filepath.Join(repo, "exporter/exporterhelper/internal/queue_sender.go"))

	queueFields := structFields(cfgFile, "Config")
	batchFields := structFields(cfgFile, "BatchConfig")
	legacyFields := structFields(qsFile, "BatcherConfig")

	fmt.Printf("/- GENERATED by translators/cmd/c04config from exporter/exporterhelper/internal/{queuebatch/config.go,queue_sender.go} — do not edit -/\n")
	fmt.Printf("import OtelVerif.Model.C04Config\nnamespace OtelVerif.Gen.C04Config\nopen OtelVerif.C04.Config\n\n")
	emitFields("queueFields", queueFields, "`queuebatch.Config`")
	emitFields("batchFields", batchFields, "`queuebatch.BatchConfig`")
	emitFields("legacyFields", legacyFields, "`internal.BatcherConfig` (embedded `SizeConfig` flattened)")
	emitRules("queueRules", rules(findFunc(cfgFile, "Config", "Validate"), queueFields, "(*Config).Validate"), "`(*queuebatch.Config).Validate`")
	emitRules("batchRules", rules(findFunc(cfgFile, "BatchConfig", "Validate"), batchFields, "(*BatchConfig).Validate"), "`(*queuebatch.BatchConfig).Validate`")
	emitRules("legacyRules", rules(findFunc(qsFile, "BatcherConfig", "Validate"), legacyFields, "(*BatcherConfig).Validate"), "`(*internal.BatcherConfig).Validate`")
	emitLiteral("defaultQueue", queueFields, literal(findFunc(qsFile, "", "NewDefaultQueueConfig"), queueFields, "NewDefaultQueueConfig"), "`NewDefaultQueueConfig()`")
	emitLiteral("defaultLegacy", legacyFields, literal(findFunc(qsFile, "", "NewDefaultBatcherConfig"), legacyFields, "NewDefaultBatcherConfig"), "`NewDefaultBatcherConfig()`")
	fmt.Printf("end OtelVerif.Gen.C04Config\n")
}
