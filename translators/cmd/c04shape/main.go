// c04shape regenerates lean/OtelVerif/Gen/C04Shape.lean from exporter/exporterhelper/*_batch.go.
//
//  1. logs_batch.go, traces_batch.go and xexporterhelper/profiles_batch.go must be the same code up to
//     renaming (alpha-normalised AST of every function except MergeSplit): the Lean model has ONE
//     three-level extract/split/moveFirst for the three signals. A structural difference => exit 2.
//  2. metricFragmentKeepsIdentity: whether the functions that build the split-off metric in metrics_batch.go
//     (everything except moveFirst*) copy name, description, unit, metadata, temporality and monotonicity.
//     All of them or none of them; a partial copy => exit 2.
//  3. splitHandlesNoProgress: whether split() has the `rmSize == 0` branch (repair of the non-terminating loop)
//     in all four files; mixed => exit 2.
//
// Only data is extracted (three booleans and the fingerprint).
package main

import (
	"crypto/sha1"
	"fmt"
	"go/ast"
	"go/parser"
	"go/token"
	"os"
	"path/filepath"
	"reflect"
	"sort"
	"strings"
)

func die(format string, a ...any) {
	fmt.Fprintf(os.Stderr, "c04shape: "+format+"\n", a...)
	os.Exit(2)
}

func parse(path string) *ast.File {
	f, err := parser.ParseFile(token.NewFileSet(), path, nil, 0)
	if err != nil {
		die("%v", err)
	}
	return f
}

// fingerprint: pre-order list of node kinds; identifiers replaced by the index of their first occurrence
// inside the function; `exporterhelper.X` treated as the identifier X; string literals kept.
func fingerprint(fd *ast.FuncDecl) string {
	var sb strings.Builder
	ids := map[string]int{}
	name := func(s string) {
		if _, ok := ids[s]; !ok {
			ids[s] = len(ids)
		}
		fmt.Fprintf(&sb, "#%d ", ids[s])
	}
	var walk func(n ast.Node) bool
	walk = func(n ast.Node) bool {
		if n == nil {
			return false
		}
		switch x := n.(type) {
		case *ast.CallExpr:
			// method names live in their own name space (pprofile.Profiles the type vs .Profiles() the method)
			if se, ok := x.Fun.(*ast.SelectorExpr); ok {
				sb.WriteString("CallSel ")
				name("method:" + se.Sel.Name)
				ast.Inspect(se.X, walk)
				for _, a := range x.Args {
					ast.Inspect(a, walk)
				}
				return false
			}
		case *ast.SelectorExpr:
			if id, ok := x.X.(*ast.Ident); ok && id.Name == "exporterhelper" {
				sb.WriteString("Ident ")
				name(x.Sel.Name)
				return false
			}
		case *ast.Ident:
			sb.WriteString("Ident ")
			name(x.Name)
			return false
		case *ast.BasicLit:
			fmt.Fprintf(&sb, "Lit(%s) ", x.Value)
			return false
		case *ast.BinaryExpr:
			fmt.Fprintf(&sb, "Bin(%s) ", x.Op)
			return true
		case *ast.UnaryExpr:
			fmt.Fprintf(&sb, "Un(%s) ", x.Op)
			return true
		case *ast.AssignStmt:
			fmt.Fprintf(&sb, "Assign(%s) ", x.Tok)
			return true
		case *ast.IncDecStmt:
			fmt.Fprintf(&sb, "IncDec(%s) ", x.Tok)
			return true
		case *ast.BranchStmt:
			fmt.Fprintf(&sb, "Branch(%s) ", x.Tok)
			return true
		}
		sb.WriteString(strings.TrimPrefix(reflect.TypeOf(n).String(), "*ast."))
		sb.WriteByte(' ')
		return true
	}
	ast.Inspect(fd.Type, walk)
	ast.Inspect(fd.Body, walk)
	return sb.String()
}

func funcs(f *ast.File) []*ast.FuncDecl {
	var out []*ast.FuncDecl
	for _, d := range f.Decls {
		if fd, ok := d.(*ast.FuncDecl); ok && fd.Body != nil {
			out = append(out, fd)
		}
	}
	return out
}

func calledMethods(fds []*ast.FuncDecl, skipPrefix string) map[string]bool {
	out := map[string]bool{}
	for _, fd := range fds {
		if strings.HasPrefix(fd.Name.Name, skipPrefix) {
			continue
		}
		ast.Inspect(fd.Body, func(n ast.Node) bool {
			if ce, ok := n.(*ast.CallExpr); ok {
				if se, ok := ce.Fun.(*ast.SelectorExpr); ok {
					out[se.Sel.Name] = true
				}
			}
			return true
		})
	}
	return out
}

// hasNoProgressBranch: split() contains `if rmSize == 0`
func hasNoProgressBranch(fds []*ast.FuncDecl) bool {
	found := false
	for _, fd := range fds {
		if fd.Name.Name != "split" {
			continue
		}
		ast.Inspect(fd.Body, func(n ast.Node) bool {
			if is, ok := n.(*ast.IfStmt); ok {
				if be, ok := is.Cond.(*ast.BinaryExpr); ok && be.Op == token.EQL {
					if id, ok := be.X.(*ast.Ident); ok && id.Name == "rmSize" {
						if bl, ok := be.Y.(*ast.BasicLit); ok && bl.Value == "0" {
							found = true
						}
					}
				}
			}
			return true
		})
	}
	return found
}

// dropsEmptyRemainder: split() ends with `if len(res) > 0 && <receiver payload>.Len() == 0 { return res }` before the
// receiver is appended
func dropsEmptyRemainder(fds []*ast.FuncDecl) bool {
	found := false
	for _, fd := range fds {
		if fd.Name.Name != "split" {
			continue
		}
		for _, st := range fd.Body.List {
			is, ok := st.(*ast.IfStmt)
			if !ok || is.Init != nil || is.Else != nil || len(is.Body.List) != 1 {
				continue
			}
			and, ok := is.Cond.(*ast.BinaryExpr)
			if !ok || and.Op != token.LAND {
				continue
			}
			l, ok1 := and.X.(*ast.BinaryExpr)
			r, ok2 := and.Y.(*ast.BinaryExpr)
			if !ok1 || !ok2 || l.Op != token.GTR || r.Op != token.EQL {
				continue
			}
			lc, ok1 := l.X.(*ast.CallExpr)
			rc, ok2 := r.X.(*ast.CallExpr)
			if !ok1 || !ok2 {
				continue
			}
			if id, ok := lc.Fun.(*ast.Ident); !ok || id.Name != "len" || len(lc.Args) != 1 {
				continue
			}
			if id, ok := lc.Args[0].(*ast.Ident); !ok || id.Name != "res" {
				continue
			}
			if se, ok := rc.Fun.(*ast.SelectorExpr); !ok || se.Sel.Name != "Len" {
				continue
			}
			if bl, ok := l.Y.(*ast.BasicLit); !ok || bl.Value != "0" {
				continue
			}
			if bl, ok := r.Y.(*ast.BasicLit); !ok || bl.Value != "0" {
				continue
			}
			rs, ok := is.Body.List[0].(*ast.ReturnStmt)
			if !ok || len(rs.Results) != 1 {
				continue
			}
			if id, ok := rs.Results[0].(*ast.Ident); ok && id.Name == "res" {
				found = true
			}
		}
	}
	return found
}

func main() {
	repo := os.Args[1]
	dir := filepath.Join(repo, "exporter/exporterhelper")
	files := map[string]string{
		"logs":     filepath.Join(dir, "logs_batch.go"),
		"traces":   filepath.Join(dir, "traces_batch.go"),
		"profiles": filepath.Join(dir, "xexporterhelper/profiles_batch.go"),
		"metrics":  filepath.Join(dir, "metrics_batch.go"),
	}
	fds := map[string][]*ast.FuncDecl{}
	for k, p := range files {
		fds[k] = funcs(parse(p))
	}
	// 1. structural equality of the three-level files
	fp := map[string]string{}
	for _, k := range []string{"logs", "traces", "profiles"} {
		var parts []string
		for _, fd := range fds[k] {
			if fd.Name.Name == "MergeSplit" {
				continue
			}
			parts = append(parts, fingerprint(fd))
		}
		fp[k] = strings.Join(parts, "\n")
	}
	if fp["logs"] != fp["traces"] {
		die("traces_batch.go is no longer logs_batch.go up to renaming")
	}
	if fp["logs"] != fp["profiles"] {
		die("xexporterhelper/profiles_batch.go is no longer logs_batch.go up to renaming")
	}
	var names []string
	for _, fd := range fds["logs"] {
		names = append(names, fd.Name.Name)
	}
	// 2. metric fragment identity
	called := calledMethods(fds["metrics"], "moveFirst")
	want := []string{"SetName", "SetDescription", "SetUnit", "Metadata", "SetAggregationTemporality", "SetIsMonotonic"}
	n := 0
	var missing []string
	for _, w := range want {
		if called[w] {
			n++
		} else {
			missing = append(missing, w)
		}
	}
	keeps := n == len(want)
	if n != 0 && !keeps {
		sort.Strings(missing)
		die("metrics_batch.go copies only part of the metric identity into the split-off metric (missing %v)", missing)
	}
	// 3. no-progress branch
	np := 0
	for _, k := range []string{"logs", "traces", "profiles", "metrics"} {
		if hasNoProgressBranch(fds[k]) {
			np++
		}
	}
	if np != 0 && np != 4 {
		die("only %d of the 4 split() functions handle rmSize == 0", np)
	}
	// 4. empty remainder not returned
	de := 0
	for _, k := range []string{"logs", "traces", "profiles", "metrics"} {
		if dropsEmptyRemainder(fds[k]) {
			de++
		}
	}
	if de != 0 && de != 4 {
		die("only %d of the 4 split() functions skip an empty remainder", de)
	}
	fmt.Printf("/-! GENERATED by translators/cmd/c04shape from exporter/exporterhelper/*_batch.go — do not edit -/\n")
	fmt.Printf("namespace OtelVerif.Gen.C04Shape\n\n")
	fmt.Printf("/-- logs_batch.go, traces_batch.go, xexporterhelper/profiles_batch.go agree up to renaming; functions: %s -/\n", strings.Join(names, ", "))
	fmt.Printf("def threeLevelFingerprint : String := \"%x\"\n\n", sha1.Sum([]byte(fp["logs"])))
	fmt.Printf("/-- extract*DataPoints copy name/description/unit/metadata/temporality/monotonicity into the split-off metric -/\n")
	fmt.Printf("def metricFragmentKeepsIdentity : Bool := %v\n\n", keeps)
	fmt.Printf("/-- split() sends an item that cannot be extracted within max_size alone (`rmSize == 0` branch) -/\n")
	fmt.Printf("def splitHandlesNoProgress : Bool := %v\n\n", np == 4)
	fmt.Printf("/-- split() does not return the receiver when nothing is left in it and there are other results (`len(res) > 0 && ….Len() == 0`) -/\n")
	fmt.Printf("def splitDropsEmptyRemainder : Bool := %v\n\n", de == 4)
	fmt.Printf("end OtelVerif.Gen.C04Shape\n")
}
