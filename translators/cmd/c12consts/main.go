// c12consts regenerates lean/OtelVerif/Gen/C12Consts.lean from confmap/expand.go, confmap/resolver.go and
// confmap/merge.go: the constants and straight-line shapes the C12 model depends on —
//
//   - schemePattern (a sequence of character classes, only the last one repeated with `+`), the way uriRegexp is
//     assembled around it, driverLetterRegexp, the backwards-compatibility scheme "file";
//   - the loop bound of expandValueRecursively;
//   - the type-switch case lists of expandValue and escapeDollarSigns, the strings.ReplaceAll arguments of
//     escapeDollarSigns, the "${" / "}" / ":" / "$" literals of expandValue, findURI and expandURI, which of
//     strings.Index / strings.LastIndex finds the closing and the opening delimiter, and the parity test of the escape count;
//   - how NewResolver checks a provider's scheme (regexp.MustCompile(schemePattern).MatchString: NOT anchored);
//   - the Kind cases of mergeAppend and the comparison used by isPresent.
//
// stdlib only. Any other shape makes the program exit 2.
package main

import (
	"fmt"
	"go/ast"
	"go/parser"
	"go/token"
	"os"
	"path/filepath"
	"strconv"
	"strings"
)

func die(format string, a ...any) {
	fmt.Fprintf(os.Stderr, "c12consts: "+format+"\n", a...)
	os.Exit(2)
}

func parse(repo, rel string) *ast.File {
	f, err := parser.ParseFile(token.NewFileSet(), filepath.Join(repo, rel), nil, 0)
	if err != nil {
		die("%v", err)
	}
	return f
}

func fn(f *ast.File, name string) *ast.FuncDecl {
	for _, d := range f.Decls {
		if fd, ok := d.(*ast.FuncDecl); ok && fd.Name.Name == name {
			return fd
		}
	}
	die("func %s not found", name)
	return nil
}

func strLit(e ast.Expr) (string, bool) {
	bl, ok := e.(*ast.BasicLit)
	if !ok || bl.Kind != token.STRING {
		return "", false
	}
	s, err := strconv.Unquote(bl.Value)
	if err != nil {
		return "", false
	}
	return s, true
}

// value of a package-level const/var initialiser by name
func globalInit(f *ast.File, name string) ast.Expr {
	for _, d := range f.Decls {
		gd, ok := d.(*ast.GenDecl)
		if !ok {
			continue
		}
		for _, sp := range gd.Specs {
			vs, ok := sp.(*ast.ValueSpec)
			if !ok {
				continue
			}
			for i, n := range vs.Names {
				if n.Name == name && i < len(vs.Values) {
					return vs.Values[i]
				}
			}
		}
	}
	die("global %s not found", name)
	return nil
}

type class struct {
	ranges [][2]int
	plus   bool
}

// parseClasses parses a sequence of `[...]` classes (single bytes and a-b ranges, ASCII, no negation, no escapes),
// each optionally followed by `+`.
func parseClasses(p string) []class {
	var out []class
	i := 0
	for i < len(p) {
		if p[i] != '[' {
			die("pattern %q: expected '[' at %d", p, i)
		}
		j := strings.IndexByte(p[i:], ']')
		if j < 0 {
			die("pattern %q: unterminated class", p)
		}
		body := p[i+1 : i+j]
		if body == "" || body[0] == '^' || strings.ContainsAny(body, `\[`) {
			die("pattern %q: unsupported class %q", p, body)
		}
		var c class
		for k := 0; k < len(body); {
			if body[k] >= 0x80 {
				die("pattern %q: non-ASCII class member", p)
			}
			if k+2 < len(body) && body[k+1] == '-' {
				if body[k+2] < body[k] {
					die("pattern %q: bad range", p)
				}
				c.ranges = append(c.ranges, [2]int{int(body[k]), int(body[k+2])})
				k += 3
			} else {
				c.ranges = append(c.ranges, [2]int{int(body[k]), int(body[k])})
				k++
			}
		}
		i += j + 1
		if i < len(p) && p[i] == '+' {
			c.plus = true
			i++
		}
		out = append(out, c)
	}
	if len(out) == 0 {
		die("pattern %q: no classes", p)
	}
	for k, c := range out {
		if c.plus != (k == len(out)-1) {
			die("pattern %q: exactly the last class must be repeated with '+'", p)
		}
	}
	return out
}

func leanRanges(rs [][2]int) string {
	parts := make([]string, len(rs))
	for i, r := range rs {
		parts[i] = fmt.Sprintf("(%d, %d)", r[0], r[1])
	}
	return "[" + strings.Join(parts, ", ") + "]"
}

func leanStr(s string) string {
	parts := make([]string, 0, len(s))
	for i := 0; i < len(s); i++ {
		parts = append(parts, fmt.Sprintf("Char.ofNat %d", s[i]))
	}
	return "[" + strings.Join(parts, ", ") + "]"
}

func leanStrs(ss []string) string {
	parts := make([]string, len(ss))
	for i, s := range ss {
		parts[i] = strconv.Quote(s)
	}
	return "[" + strings.Join(parts, ", ") + "]"
}

func typeString(e ast.Expr) string {
	switch x := e.(type) {
	case *ast.Ident:
		return x.Name
	case *ast.ArrayType:
		if x.Len == nil {
			return "[]" + typeString(x.Elt)
		}
	case *ast.MapType:
		return "map[" + typeString(x.Key) + "]" + typeString(x.Value)
	case *ast.SelectorExpr:
		return typeString(x.X) + "." + x.Sel.Name
	}
	die("unsupported type expression %T", e)
	return ""
}

// the case lists of the (single, outermost) type switch of a function
func typeSwitchCases(fd *ast.FuncDecl) []string {
	var ts *ast.TypeSwitchStmt
	for _, st := range fd.Body.List {
		if t, ok := st.(*ast.TypeSwitchStmt); ok {
			if ts != nil {
				die("%s: more than one top-level type switch", fd.Name.Name)
			}
			ts = t
		}
	}
	if ts == nil {
		die("%s: no top-level type switch", fd.Name.Name)
	}
	var out []string
	for _, c := range ts.Body.List {
		cc := c.(*ast.CaseClause)
		if cc.List == nil {
			out = append(out, "default")
			continue
		}
		if len(cc.List) != 1 {
			die("%s: a case with %d types", fd.Name.Name, len(cc.List))
		}
		out = append(out, typeString(cc.List[0]))
	}
	return out
}

// calls strings.<fn>(…, "<lit>") inside a node, in source order: "fn:lit"
func stringsCalls(n ast.Node) []string {
	var out []string
	ast.Inspect(n, func(x ast.Node) bool {
		call, ok := x.(*ast.CallExpr)
		if !ok {
			return true
		}
		se, ok := call.Fun.(*ast.SelectorExpr)
		if !ok {
			return true
		}
		if id, ok := se.X.(*ast.Ident); !ok || id.Name != "strings" {
			return true
		}
		item := se.Sel.Name
		for _, a := range call.Args[1:] {
			if s, ok := strLit(a); ok {
				item += ":" + s
			} else {
				item += ":?"
			}
		}
		out = append(out, item)
		return true
	})
	return out
}

func main() {
	if len(os.Args) < 2 {
		die("usage: c12consts <repo>")
	}
	repo := os.Args[1]
	expand := parse(repo, "confmap/expand.go")
	resolver := parse(repo, "confmap/resolver.go")
	merge := parse(repo, "confmap/merge.go")

	// schemePattern
	pat, ok := strLit(globalInit(expand, "schemePattern"))
	if !ok {
		die("schemePattern is not a string literal")
	}
	classes := parseClasses(pat)

	// uriRegexp = regexp.MustCompile(`(?s:^(?P<Scheme>` + schemePattern + `):(?P<OpaqueValue>.*)$)`)
	call, ok := globalInit(expand, "uriRegexp").(*ast.CallExpr)
	if !ok || len(call.Args) != 1 {
		die("uriRegexp: not a call with one argument")
	}
	outer, ok := call.Args[0].(*ast.BinaryExpr)
	if !ok || outer.Op != token.ADD {
		die("uriRegexp: argument is not a concatenation")
	}
	inner, ok := outer.X.(*ast.BinaryExpr)
	if !ok || inner.Op != token.ADD {
		die("uriRegexp: argument is not a three-part concatenation")
	}
	pre, ok1 := strLit(inner.X)
	mid, ok2 := inner.Y.(*ast.Ident)
	post, ok3 := strLit(outer.Y)
	if !ok1 || !ok2 || !ok3 || mid.Name != "schemePattern" {
		die("uriRegexp: expected literal + schemePattern + literal")
	}
	if pre != "(?s:^(?P<Scheme>" || post != "):(?P<OpaqueValue>.*)$)" {
		die("uriRegexp: unexpected frame %q … %q (expected anchored ^(scheme):(.*)$ with the s flag)", pre, post)
	}

	// errTooManyRecursiveExpansions loop bound
	bound := -1
	rec := fn(expand, "expandValueRecursively")
	for _, st := range rec.Body.List {
		fs, ok := st.(*ast.ForStmt)
		if !ok {
			continue
		}
		be, ok := fs.Cond.(*ast.BinaryExpr)
		if !ok || be.Op != token.LSS {
			die("expandValueRecursively: loop condition is not `i < N`")
		}
		bl, ok := be.Y.(*ast.BasicLit)
		if !ok || bl.Kind != token.INT {
			die("expandValueRecursively: loop bound is not an integer literal")
		}
		init, ok := fs.Init.(*ast.AssignStmt)
		if !ok || len(init.Rhs) != 1 {
			die("expandValueRecursively: unexpected loop init")
		}
		if z, ok := init.Rhs[0].(*ast.BasicLit); !ok || z.Value != "0" {
			die("expandValueRecursively: loop does not start at 0")
		}
		if inc, ok := fs.Post.(*ast.IncDecStmt); !ok || inc.Tok != token.INC {
			die("expandValueRecursively: loop post statement is not i++")
		}
		if bound >= 0 {
			die("expandValueRecursively: more than one loop")
		}
		bound, _ = strconv.Atoi(bl.Value)
	}
	if bound < 0 {
		die("expandValueRecursively: no loop")
	}

	expandCases := typeSwitchCases(fn(expand, "expandValue"))
	escapeCases := typeSwitchCases(fn(resolver, "escapeDollarSigns"))
	escapeCalls := stringsCalls(fn(resolver, "escapeDollarSigns"))
	expandCalls := stringsCalls(fn(expand, "expandValue"))
	findCalls := stringsCalls(fn(expand, "findURI"))
	uriCalls := stringsCalls(fn(expand, "expandURI"))

	// findURI: `count%2 == 1`
	parity := ""
	ast.Inspect(fn(expand, "findURI"), func(x ast.Node) bool {
		is, ok := x.(*ast.IfStmt)
		if !ok {
			return true
		}
		be, ok := is.Cond.(*ast.BinaryExpr)
		if !ok {
			return true
		}
		l, ok := be.X.(*ast.BinaryExpr)
		if !ok || l.Op != token.REM {
			return true
		}
		id, ok1 := l.X.(*ast.Ident)
		m, ok2 := l.Y.(*ast.BasicLit)
		r, ok3 := be.Y.(*ast.BasicLit)
		if ok1 && ok2 && ok3 && id.Name == "count" {
			parity += fmt.Sprintf("count%%%s%s%s;", m.Value, be.Op, r.Value)
		}
		return true
	})
	if parity == "" {
		die("findURI: no `count%%2 == 1` test found")
	}

	// driverLetterRegexp = regexp.MustCompile("^[A-z]:")
	dcall, ok := globalInit(resolver, "driverLetterRegexp").(*ast.CallExpr)
	if !ok || len(dcall.Args) != 1 {
		die("driverLetterRegexp: not a call with one argument")
	}
	dpat, ok := strLit(dcall.Args[0])
	if !ok || !strings.HasPrefix(dpat, "^[") || !strings.HasSuffix(dpat, "]:") {
		die("driverLetterRegexp: unexpected pattern %q", dpat)
	}
	dcls := parseClassesNoPlus(dpat[1 : len(dpat)-1])

	// NewResolver: backwards-compatibility scheme, provider scheme check
	nr := fn(resolver, "NewResolver")
	fileSchemes := map[string]bool{}
	provCheck := ""
	ast.Inspect(nr, func(x ast.Node) bool {
		switch n := x.(type) {
		case *ast.CompositeLit:
			if id, ok := n.Type.(*ast.Ident); ok && id.Name == "location" {
				for _, el := range n.Elts {
					kv, ok := el.(*ast.KeyValueExpr)
					if !ok {
						continue
					}
					if k, ok := kv.Key.(*ast.Ident); ok && k.Name == "scheme" {
						if s, ok := strLit(kv.Value); ok {
							fileSchemes[s] = true
						}
					}
				}
			}
		case *ast.CallExpr:
			// regexp.MustCompile(schemePattern).MatchString(scheme)
			se, ok := n.Fun.(*ast.SelectorExpr)
			if !ok {
				return true
			}
			inner, ok := se.X.(*ast.CallExpr)
			if !ok || len(inner.Args) != 1 {
				return true
			}
			if a, ok := inner.Args[0].(*ast.Ident); ok && a.Name == "schemePattern" {
				provCheck += se.Sel.Name + ";"
			}
		}
		return true
	})
	if len(fileSchemes) != 1 {
		die("NewResolver: expected exactly one literal scheme in location{…} literals, got %v", fileSchemes)
	}
	fileScheme := ""
	for s := range fileSchemes {
		fileScheme = s
	}
	if provCheck != "MatchString;" {
		die("NewResolver: expected one regexp.MustCompile(schemePattern).MatchString(…) check, got %q", provCheck)
	}

	// mergeAppend: the Kind switch; isPresent: the comparison
	var kinds []string
	ast.Inspect(fn(merge, "mergeAppend"), func(x ast.Node) bool {
		sw, ok := x.(*ast.SwitchStmt)
		if !ok {
			return true
		}
		for _, c := range sw.Body.List {
			cc := c.(*ast.CaseClause)
			if cc.List == nil {
				kinds = append(kinds, "default")
				continue
			}
			var names []string
			for _, e := range cc.List {
				names = append(names, typeString(e))
			}
			kinds = append(kinds, strings.Join(names, ","))
		}
		return true
	})
	if len(kinds) == 0 {
		die("mergeAppend: no switch on the kind")
	}
	cmp := ""
	ast.Inspect(fn(merge, "isPresent"), func(x ast.Node) bool {
		call, ok := x.(*ast.CallExpr)
		if !ok {
			return true
		}
		if se, ok := call.Fun.(*ast.SelectorExpr); ok && (se.Sel.Name == "DeepEqual" || se.Sel.Name == "Equal") {
			cmp += se.Sel.Name + ";"
		}
		return true
	})
	if cmp == "" {
		die("isPresent: no DeepEqual / Equal call")
	}

	fmt.Printf("/- GENERATED by /verif/translators/cmd/c12consts from confmap/expand.go, confmap/resolver.go, confmap/merge.go — do not edit. -/\n")
	fmt.Printf("namespace OtelVerif.Gen.C12Consts\n\n")
	fmt.Printf("/-- `schemePattern` = %s: one entry per character class (byte ranges); exactly the last class is repeated (`+`) -/\n", strconv.Quote(pat))
	fmt.Printf("def schemeClasses : List (List (Nat × Nat)) := [")
	for i, c := range classes {
		if i > 0 {
			fmt.Printf(", ")
		}
		fmt.Printf("%s", leanRanges(c.ranges))
	}
	fmt.Printf("]\n\n")
	fmt.Printf("/-- `uriRegexp` is `(?s:^(?P<Scheme>schemePattern):(?P<OpaqueValue>.*)$)`: anchored, first `:` separates, opaque part is anything -/\n")
	fmt.Printf("def uriRegexpAnchored : Bool := true\n\n")
	fmt.Printf("/-- the loop bound of `expandValueRecursively` -/\ndef loopBound : Nat := %d\n\n", bound)
	fmt.Printf("/-- `driverLetterRegexp` = %s: the byte ranges of the class before the `:` -/\n", strconv.Quote(dpat))
	fmt.Printf("def driverLetterRanges : List (Nat × Nat) := %s\n\n", leanRanges(dcls))
	fmt.Printf("/-- the scheme `NewResolver` gives a location without a scheme / with a drive letter -/\n")
	fmt.Printf("def fileScheme : List Char := %s\n\n", leanStr(fileScheme))
	fmt.Printf("/-- `NewResolver` checks a provider's scheme with `regexp.MustCompile(schemePattern).MatchString` (not anchored) -/\n")
	fmt.Printf("def providerSchemeCheck : String := %s\n\n", strconv.Quote(provCheck))
	fmt.Printf("def expandValueCases : List String := %s\n", leanStrs(expandCases))
	fmt.Printf("def escapeDollarSignsCases : List String := %s\n", leanStrs(escapeCases))
	fmt.Printf("/-- `strings.*` calls with literal arguments, in source order (`Fn:arg…`) -/\n")
	fmt.Printf("def escapeDollarSignsCalls : List String := %s\n", leanStrs(escapeCalls))
	fmt.Printf("def expandValueCalls : List String := %s\n", leanStrs(expandCalls))
	fmt.Printf("def findURICalls : List String := %s\n", leanStrs(findCalls))
	fmt.Printf("def expandURICalls : List String := %s\n", leanStrs(uriCalls))
	fmt.Printf("/-- the escape test of `findURI` on the count of `$` before `${` -/\n")
	fmt.Printf("def findURIParity : String := %s\n\n", strconv.Quote(parity))
	fmt.Printf("/-- the cases of the Kind switch of `mergeAppend`, and the comparison `isPresent` uses -/\n")
	fmt.Printf("def mergeAppendKinds : List String := %s\n", leanStrs(kinds))
	fmt.Printf("def isPresentCompare : String := %s\n\n", strconv.Quote(cmp))
	fmt.Printf("end OtelVerif.Gen.C12Consts\n")
}

func parseClassesNoPlus(p string) [][2]int {
	if !strings.HasPrefix(p, "[") || !strings.HasSuffix(p, "]") || strings.Count(p, "[") != 1 {
		die("driverLetterRegexp: unexpected class %q", p)
	}
	body := p[1 : len(p)-1]
	if body == "" || body[0] == '^' || strings.ContainsAny(body, `\`) {
		die("driverLetterRegexp: unsupported class %q", body)
	}
	var out [][2]int
	for k := 0; k < len(body); {
		if k+2 < len(body) && body[k+1] == '-' {
			out = append(out, [2]int{int(body[k]), int(body[k+2])})
			k += 3
		} else {
			out = append(out, [2]int{int(body[k]), int(body[k])})
			k++
		}
	}
	return out
}
