// c17config regenerates lean/OtelVerif/Gen/C17Config.lean from processor/batchprocessor/{config.go,factory.go}:
//
//   - (*Config).Validate: the straight-line `if <cond> { return error }` statements as VRule data (interpreter:
//     Model/C04Config.lean `runRules`), and whether the metadata_keys loop has the expected shape (range over
//     cfg.MetadataKeys, strings.ToLower, a `uniq` map, error on a repeated entry);
//   - createDefaultConfig: the struct literal with the package constants resolved (durations in ns).
//
// stdlib only; any other shape => exit 2.
package main

import (
	"fmt"
	"go/ast"
	"go/parser"
	"go/token"
	"os"
	"path/filepath"
	"strconv"
	"strings"
)

func die(format string, a ...any) {
	fmt.Fprintf(os.Stderr, "c17config: "+format+"\n", a...)
	os.Exit(2)
}

func parse(path string) *ast.File {
	f, err := parser.ParseFile(token.NewFileSet(), path, nil, 0)
	if err != nil {
		die("%v", err)
	}
	return f
}

func findFunc(f *ast.File, recvType, name string) *ast.FuncDecl {
	for _, d := range f.Decls {
		fd, ok := d.(*ast.FuncDecl)
		if !ok || fd.Name.Name != name || fd.Body == nil {
			continue
		}
		if recvType == "" {
			if fd.Recv == nil {
				return fd
			}
			continue
		}
		if fd.Recv == nil || len(fd.Recv.List) != 1 {
			continue
		}
		t := fd.Recv.List[0].Type
		if se, ok := t.(*ast.StarExpr); ok {
			t = se.X
		}
		if id, ok := t.(*ast.Ident); ok && id.Name == recvType {
			return fd
		}
	}
	die("func (%s).%s not found", recvType, name)
	return nil
}

type conv struct {
	recv   string
	fields map[string]string
	where  string
}

func (c *conv) expr(e ast.Expr) (string, string) { // lean term, kind
	switch x := e.(type) {
	case *ast.ParenExpr:
		return c.expr(x.X)
	case *ast.BasicLit:
		if x.Kind == token.INT {
			v, err := strconv.ParseInt(strings.ReplaceAll(x.Value, "_", ""), 0, 64)
			if err != nil {
				die("%s: literal %s", c.where, x.Value)
			}
			return fmt.Sprintf("(.lit %d)", v), "int"
		}
	case *ast.Ident:
		if x.Name == "nil" {
			return ".nil", "ptr"
		}
		if x.Name == c.recv {
			return "(.fld \"self\")", "ptr"
		}
	case *ast.SelectorExpr:
		if id, ok := x.X.(*ast.Ident); ok {
			if id.Name == c.recv {
				k, ok := c.fields[x.Sel.Name]
				if !ok {
					die("%s: unknown field %s", c.where, x.Sel.Name)
				}
				return fmt.Sprintf("(.fld %q)", x.Sel.Name), k
			}
		}
	}
	die("%s: unsupported operand", c.where)
	return "", ""
}

var cmpOps = map[token.Token]string{token.LSS: ".lt", token.LEQ: ".le", token.GTR: ".gt", token.GEQ: ".ge", token.EQL: ".eq", token.NEQ: ".ne"}

func (c *conv) cond(e ast.Expr) string {
	switch x := e.(type) {
	case *ast.ParenExpr:
		return c.cond(x.X)
	case *ast.UnaryExpr:
		if x.Op == token.NOT {
			return "(.not " + c.cond(x.X) + ")"
		}
	case *ast.BinaryExpr:
		switch x.Op {
		case token.LAND:
			return "(.and " + c.cond(x.X) + " " + c.cond(x.Y) + ")"
		case token.LOR:
			return "(.or " + c.cond(x.X) + " " + c.cond(x.Y) + ")"
		}
		if op, ok := cmpOps[x.Op]; ok {
			a, ka := c.expr(x.X)
			b, kb := c.expr(x.Y)
			if ka != kb {
				die("%s: comparison of a %s with a %s", c.where, ka, kb)
			}
			if (ka == "ptr" || ka == "sizer") && x.Op != token.EQL && x.Op != token.NEQ {
				die("%s: ordered comparison of a %s", c.where, ka)
			}
			return fmt.Sprintf("(.cmp %s %s %s)", op, a, b)
		}
	case *ast.SelectorExpr:
		t, k := c.expr(x)
		if k != "bool" {
			die("%s: non-bool field used as a condition", c.where)
		}
		return "(.isTrue " + t + ")"
	}
	die("%s: unsupported condition", c.where)
	return ""
}

func isErrReturn(s ast.Stmt) bool {
	rs, ok := s.(*ast.ReturnStmt)
	if !ok || len(rs.Results) != 1 {
		return false
	}
	ce, ok := rs.Results[0].(*ast.CallExpr)
	if !ok {
		return false
	}
	se, ok := ce.Fun.(*ast.SelectorExpr)
	if !ok {
		return false
	}
	id, ok := se.X.(*ast.Ident)
	return ok && (id.Name == "errors" && se.Sel.Name == "New" || id.Name == "fmt" && se.Sel.Name == "Errorf")
}

// keyLoop: `for _, k := range cfg.MetadataKeys { l := strings.ToLower(k); if _, has := uniq[l]; has { return error }; uniq[l] = true }`
func keyLoop(rs *ast.RangeStmt, recv string) bool {
	se, ok := rs.X.(*ast.SelectorExpr)
	if !ok || se.Sel.Name != "MetadataKeys" {
		return false
	}
	if id, ok := se.X.(*ast.Ident); !ok || id.Name != recv {
		return false
	}
	lower, dupErr, store := false, false, false
	ast.Inspect(rs.Body, func(n ast.Node) bool {
		switch x := n.(type) {
		case *ast.CallExpr:
			if s, ok := x.Fun.(*ast.SelectorExpr); ok && s.Sel.Name == "ToLower" {
				if id, ok := s.X.(*ast.Ident); ok && id.Name == "strings" {
					lower = true
				}
			}
		case *ast.IfStmt:
			if as, ok := x.Init.(*ast.AssignStmt); ok && len(as.Rhs) == 1 {
				if _, ok := as.Rhs[0].(*ast.IndexExpr); ok && len(x.Body.List) == 1 && isErrReturn(x.Body.List[0]) {
					if id, ok := x.Cond.(*ast.Ident); ok && len(as.Lhs) == 2 {
						if l, ok := as.Lhs[1].(*ast.Ident); ok && l.Name == id.Name {
							dupErr = true
						}
					}
				}
			}
		case *ast.AssignStmt:
			if len(x.Lhs) == 1 {
				if _, ok := x.Lhs[0].(*ast.IndexExpr); ok {
					if id, ok := x.Rhs[0].(*ast.Ident); ok && id.Name == "true" {
						store = true
					}
				}
			}
		}
		return true
	})
	return lower && dupErr && store
}

func constInt(f *ast.File, name string) (int64, bool) {
	var eval func(e ast.Expr) (int64, bool)
	eval = func(e ast.Expr) (int64, bool) {
		switch x := e.(type) {
		case *ast.ParenExpr:
			return eval(x.X)
		case *ast.BasicLit:
			if x.Kind == token.INT {
				v, err := strconv.ParseInt(strings.ReplaceAll(x.Value, "_", ""), 0, 64)
				return v, err == nil
			}
		case *ast.CallExpr: // uint32(8192)
			if id, ok := x.Fun.(*ast.Ident); ok && len(x.Args) == 1 && (id.Name == "uint32" || id.Name == "int" || id.Name == "int64") {
				return eval(x.Args[0])
			}
		case *ast.BinaryExpr:
			if x.Op == token.MUL {
				a, ok1 := eval(x.X)
				b, ok2 := eval(x.Y)
				return a * b, ok1 && ok2
			}
		case *ast.SelectorExpr:
			if id, ok := x.X.(*ast.Ident); ok && id.Name == "time" {
				switch x.Sel.Name {
				case "Nanosecond":
					return 1, true
				case "Microsecond":
					return 1000, true
				case "Millisecond":
					return 1000000, true
				case "Second":
					return 1000000000, true
				}
			}
		}
		return 0, false
	}
	for _, d := range f.Decls {
		gd, ok := d.(*ast.GenDecl)
		if !ok || gd.Tok != token.CONST {
			continue
		}
		for _, s := range gd.Specs {
			vs := s.(*ast.ValueSpec)
			for i, n := range vs.Names {
				if n.Name == name && i < len(vs.Values) {
					return eval(vs.Values[i])
				}
			}
		}
	}
	return 0, false
}

func main() {
	repo := os.Args[1]
	dir := filepath.Join(repo, "processor/batchprocessor")
	cfgFile := parse(filepath.Join(dir, "config.go"))
	facFile := parse(filepath.Join(dir, "factory.go"))
	fd := findFunc(cfgFile, "Config", "Validate")
	if len(fd.Recv.List[0].Names) != 1 {
		die("Validate: receiver without a name")
	}
	c := &conv{recv: fd.Recv.List[0].Names[0].Name, where: "(*Config).Validate", fields: map[string]string{
		"SendBatchSize": "int", "SendBatchMaxSize": "int", "Timeout": "int", "MetadataCardinalityLimit": "int"}}
	var rules []string
	loops, loopOK := 0, false
	body := fd.Body.List
	for _, s := range body[:len(body)-1] {
		switch x := s.(type) {
		case *ast.IfStmt:
			if x.Init != nil || x.Else != nil || len(x.Body.List) != 1 || !isErrReturn(x.Body.List[0]) {
				die("Validate: statement is not `if cond { return error }`")
			}
			rules = append(rules, fmt.Sprintf("⟨%s, false⟩", c.cond(x.Cond)))
		case *ast.RangeStmt:
			loops++
			loopOK = keyLoop(x, c.recv)
		case *ast.AssignStmt: // uniq := map[string]bool{}
			if len(x.Lhs) != 1 || x.Tok != token.DEFINE {
				die("Validate: unexpected assignment")
			}
			if _, ok := x.Rhs[0].(*ast.CompositeLit); !ok {
				die("Validate: unexpected assignment")
			}
		default:
			die("Validate: unexpected statement")
		}
	}
	if rs, ok := body[len(body)-1].(*ast.ReturnStmt); !ok || len(rs.Results) != 1 {
		die("Validate: does not end in `return nil`")
	} else if id, ok := rs.Results[0].(*ast.Ident); !ok || id.Name != "nil" {
		die("Validate: does not end in `return nil`")
	}
	if loops > 1 || (loops == 1 && !loopOK) {
		die("Validate: the metadata_keys loop no longer has the expected shape (range cfg.MetadataKeys, strings.ToLower, uniq map, error on a repeated entry)")
	}
	// createDefaultConfig
	cd := findFunc(facFile, "", "createDefaultConfig")
	if len(cd.Body.List) != 1 {
		die("createDefaultConfig: body is not a single return")
	}
	rs, ok := cd.Body.List[0].(*ast.ReturnStmt)
	if !ok || len(rs.Results) != 1 {
		die("createDefaultConfig: body is not a single return")
	}
	e := rs.Results[0]
	if ue, ok := e.(*ast.UnaryExpr); ok && ue.Op == token.AND {
		e = ue.X
	}
	cl, ok := e.(*ast.CompositeLit)
	if !ok {
		die("createDefaultConfig: not a struct literal")
	}
	vals := map[string]int64{}
	for _, el := range cl.Elts {
		kv, ok := el.(*ast.KeyValueExpr)
		if !ok {
			die("createDefaultConfig: unkeyed literal")
		}
		k := kv.Key.(*ast.Ident).Name
		if _, known := c.fields[k]; !known {
			die("createDefaultConfig: field %s is not numeric / unknown", k)
		}
		id, ok := kv.Value.(*ast.Ident)
		if !ok {
			die("createDefaultConfig: value of %s is not a package constant", k)
		}
		v, ok := constInt(facFile, id.Name)
		if !ok {
			die("createDefaultConfig: constant %s not found / not evaluable", id.Name)
		}
		vals[k] = v
	}
	fmt.Printf("/- GENERATED by translators/cmd/c17config from processor/batchprocessor/{config.go,factory.go} — do not edit -/\n")
	fmt.Printf("import OtelVerif.Model.C04Config\nnamespace OtelVerif.Gen.C17Config\nopen OtelVerif.C04.Config\n\n")
	fmt.Printf("/-- the straight-line checks of `(*Config).Validate` (every one rejects), in source order -/\ndef validateRules : List VRule := [\n  %s\n]\n\n", strings.Join(rules, ",\n  "))
	fmt.Printf("/-- `Validate` has the metadata_keys loop: entries compared after strings.ToLower, a repeated entry is an error -/\ndef validateHasKeyLoop : Bool := %v\n\n", loops == 1)
	var q []string
	for _, k := range []string{"SendBatchSize", "SendBatchMaxSize", "Timeout", "MetadataCardinalityLimit"} {
		q = append(q, fmt.Sprintf("(%q, %d)", k, vals[k]))
	}
	fmt.Printf("/-- `createDefaultConfig()`: numeric fields (Timeout in ns), zero unless set; MetadataKeys is not set -/\ndef defaults : List (String × Int) := [%s]\n\n", strings.Join(q, ", "))
	fmt.Printf("end OtelVerif.Gen.C17Config\n")
}
