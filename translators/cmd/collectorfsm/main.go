// collectorfsm regenerates lean/OtelVerif/Gen/CollectorFsm.lean from otelcol/collector.go (non-test files of otelcol/):
// straight-line facts about the collector's lifecycle code, consumed by Props/C20.lean so that a source change
// re-checks the proofs:
//
//   - the State constants in iota order, the initial state stored by NewCollector,
//   - every function that writes `<x>.state` (Store/Swap/CompareAndSwap) — expected: NewCollector and setCollectorState only,
//   - every `setCollectorState(StateX)` call site (function, X) in source order,
//   - the truth table of the condition guarding `close(<x>.shutdownChan)` in (*Collector).Shutdown over the State constants
//     (conditions built from GetState()/state.Load() ==/!= StateX, ||, &&, !, parentheses),
//   - per lifecycle function the sequence of calls that matter for the property (depth = number of enclosing if/else
//     bodies, i.e. 0 = the straight path, >0 = an error branch), in source order,
//   - the signal registrations of Run (condition text, signals) and whether signal.Stop is deferred,
//   - the branches of Run's select: channel, distinguishing condition, outcome when the condition holds / does not hold
//     (stop = leaves the loop towards col.shutdown, reload = reloadConfiguration and return its error),
//     and what follows the loop.
//
// Data only; no control flow is interpreted beyond the shapes listed. Exit 2 on any shape it does not know.
package main

import (
	"bytes"
	"fmt"
	"go/ast"
	"go/parser"
	"go/printer"
	"go/token"
	"os"
	"path/filepath"
	"sort"
	"strings"
)

func die(format string, a ...any) {
	fmt.Fprintf(os.Stderr, "collectorfsm: "+format+"\n", a...)
	os.Exit(2)
}

var fset = token.NewFileSet()

func text(n ast.Node) string {
	var b bytes.Buffer
	if err := printer.Fprint(&b, fset, n); err != nil {
		die("print: %v", err)
	}
	return strings.Join(strings.Fields(b.String()), " ")
}

func funcName(fd *ast.FuncDecl) (name, recv string) {
	name = fd.Name.Name
	if fd.Recv != nil && len(fd.Recv.List) == 1 {
		t := fd.Recv.List[0].Type
		if s, ok := t.(*ast.StarExpr); ok {
			t = s.X
		}
		if id, ok := t.(*ast.Ident); ok {
			name = id.Name + "." + name
		}
		if len(fd.Recv.List[0].Names) == 1 {
			recv = fd.Recv.List[0].Names[0].Name
		}
	}
	return
}

// chain renders a selector chain a.b.c (receiver normalised to "col"); "" if not a plain chain
func chain(e ast.Expr, recv string) string {
	switch v := e.(type) {
	case *ast.Ident:
		if v.Name == recv && recv != "" {
			return "col"
		}
		return v.Name
	case *ast.SelectorExpr:
		x := chain(v.X, recv)
		if x == "" {
			return ""
		}
		return x + "." + v.Sel.Name
	}
	return ""
}

func stateName(e ast.Expr) (string, bool) {
	id, ok := e.(*ast.Ident)
	if !ok || !strings.HasPrefix(id.Name, "State") || id.Name == "State" {
		return "", false
	}
	return strings.TrimPrefix(id.Name, "State"), true
}

// significant calls: chain -> label; chains on col.service / col.configProvider that are not listed are an unknown shape
var significant = map[string]string{
	"col.set.Factories":                "Factories",
	"col.configProvider.Get":           "provider.Get",
	"col.configProvider.Shutdown":      "provider.Shutdown",
	"col.configProvider.Watch":         "provider.Watch",
	"xconfmap.Validate":                "Validate",
	"conf.Marshal":                     "Marshal",
	"service.New":                      "service.New",
	"service.Validate":                 "service.Validate",
	"col.service.Start":                "service.Start",
	"col.service.Shutdown":             "service.Shutdown",
	"col.setupConfigurationComponents": "call:setup",
	"col.reloadConfiguration":          "call:reload",
	"col.shutdown":                     "call:shutdown",
	"signal.Stop":                      "signal.Stop",
}

var ignoredOnService = map[string]bool{"col.service.Logger": true}

type seqEntry struct {
	depth int
	name  string
}

type notifyEntry struct {
	cond string
	sigs []string
}

type collector struct {
	recv    string
	seq     []seqEntry
	notify  []notifyEntry
	condStk []string
}

func (c *collector) call(ce *ast.CallExpr, depth int, deferred bool) {
	if id, ok := ce.Fun.(*ast.Ident); ok && id.Name == "close" && len(ce.Args) == 1 {
		if ch := chain(ce.Args[0], c.recv); ch == "col.shutdownChan" {
			c.seq = append(c.seq, seqEntry{depth, "close:shutdownChan"})
		}
		return
	}
	ch := chain(ce.Fun, c.recv)
	if ch == "" {
		return
	}
	if ch == "col.setCollectorState" {
		if len(ce.Args) != 1 {
			die("setCollectorState with %d args", len(ce.Args))
		}
		st, ok := stateName(ce.Args[0])
		if !ok {
			die("%s: setCollectorState argument is not a State constant: %s", fset.Position(ce.Pos()), text(ce.Args[0]))
		}
		c.seq = append(c.seq, seqEntry{depth, "set:" + st})
		return
	}
	if ch == "signal.Notify" {
		var sigs []string
		for _, a := range ce.Args[1:] {
			s := chain(a, c.recv)
			if s == "" {
				die("%s: signal.Notify argument of unknown shape: %s", fset.Position(a.Pos()), text(a))
			}
			s = strings.TrimPrefix(strings.TrimPrefix(s, "syscall."), "os.")
			sigs = append(sigs, s)
		}
		if chain(ce.Args[0], c.recv) != "col.signalsChannel" {
			die("%s: signal.Notify on a channel other than signalsChannel", fset.Position(ce.Pos()))
		}
		cond := ""
		if len(c.condStk) > 0 {
			cond = strings.Join(c.condStk, " && ")
		}
		c.notify = append(c.notify, notifyEntry{cond, sigs})
		return
	}
	if lbl, ok := significant[ch]; ok {
		if deferred {
			lbl = "defer " + lbl
		}
		c.seq = append(c.seq, seqEntry{depth, lbl})
		return
	}
	if (strings.HasPrefix(ch, "col.service.") || strings.HasPrefix(ch, "col.configProvider.")) && !ignoredOnService[ch] {
		die("%s: call %s on the service/config provider is not a known shape", fset.Position(ce.Pos()), ch)
	}
}

// exprCalls records the significant calls inside an expression / simple statement in source order
func (c *collector) exprCalls(n ast.Node, depth int, deferred bool) {
	if n == nil {
		return
	}
	var calls []*ast.CallExpr
	ast.Inspect(n, func(x ast.Node) bool {
		if _, ok := x.(*ast.FuncLit); ok {
			return false
		}
		if ce, ok := x.(*ast.CallExpr); ok {
			calls = append(calls, ce)
		}
		return true
	})
	// innermost (argument) calls execute first: order by end position
	sort.SliceStable(calls, func(i, j int) bool { return calls[i].End() < calls[j].End() })
	for _, ce := range calls {
		c.call(ce, depth, deferred)
	}
}

func (c *collector) stmts(list []ast.Stmt, depth int) {
	for _, s := range list {
		c.stmt(s, depth)
	}
}

func (c *collector) stmt(s ast.Stmt, depth int) {
	switch v := s.(type) {
	case *ast.IfStmt:
		if v.Init != nil {
			c.stmt(v.Init, depth)
		}
		c.exprCalls(v.Cond, depth, false)
		c.condStk = append(c.condStk, text(v.Cond))
		c.stmts(v.Body.List, depth+1)
		c.condStk = c.condStk[:len(c.condStk)-1]
		if v.Else != nil {
			c.condStk = append(c.condStk, "!("+text(v.Cond)+")")
			c.stmt(v.Else, depth+1)
			c.condStk = c.condStk[:len(c.condStk)-1]
		}
	case *ast.BlockStmt:
		c.stmts(v.List, depth)
	case *ast.ForStmt:
		c.stmts(v.Body.List, depth)
	case *ast.RangeStmt:
		c.exprCalls(v.X, depth, false)
		c.stmts(v.Body.List, depth)
	case *ast.LabeledStmt:
		c.stmt(v.Stmt, depth)
	case *ast.DeferStmt:
		if fl, ok := v.Call.Fun.(*ast.FuncLit); ok {
			c.stmts(fl.Body.List, depth)
		} else {
			c.exprCalls(v.Call, depth, true)
		}
	case *ast.SelectStmt:
		// handled separately for Run; calls inside the clauses are still recorded (depth+1)
		for _, cl := range v.Body.List {
			cc := cl.(*ast.CommClause)
			if cc.Comm != nil {
				c.exprCalls(cc.Comm, depth, false)
			}
			c.stmts(cc.Body, depth+1)
		}
	case *ast.SwitchStmt, *ast.TypeSwitchStmt, *ast.GoStmt:
		die("%s: statement kind %T in a lifecycle function is not a known shape", fset.Position(s.Pos()), s)
	default:
		c.exprCalls(s, depth, false)
	}
}

// ---- guard of Shutdown ----

type bexpr func(state string) bool

func isStateRead(e ast.Expr, recv string) bool {
	// col.GetState()   |   State(col.state.Load())
	ce, ok := e.(*ast.CallExpr)
	if !ok {
		return false
	}
	if chain(ce.Fun, recv) == "col.GetState" && len(ce.Args) == 0 {
		return true
	}
	if id, ok := ce.Fun.(*ast.Ident); ok && id.Name == "State" && len(ce.Args) == 1 {
		if in, ok := ce.Args[0].(*ast.CallExpr); ok && chain(in.Fun, recv) == "col.state.Load" {
			return true
		}
	}
	return false
}

func guard(e ast.Expr, recv string) bexpr {
	switch v := e.(type) {
	case *ast.ParenExpr:
		return guard(v.X, recv)
	case *ast.UnaryExpr:
		if v.Op == token.NOT {
			g := guard(v.X, recv)
			return func(s string) bool { return !g(s) }
		}
	case *ast.BinaryExpr:
		switch v.Op {
		case token.LOR:
			a, b := guard(v.X, recv), guard(v.Y, recv)
			return func(s string) bool { return a(s) || b(s) }
		case token.LAND:
			a, b := guard(v.X, recv), guard(v.Y, recv)
			return func(s string) bool { return a(s) && b(s) }
		case token.EQL, token.NEQ:
			var c string
			var ok bool
			if isStateRead(v.X, recv) {
				c, ok = stateName(v.Y)
			} else if isStateRead(v.Y, recv) {
				c, ok = stateName(v.X)
			}
			if ok {
				eq := v.Op == token.EQL
				return func(s string) bool { return (s == c) == eq }
			}
		}
	}
	die("%s: guard of close(shutdownChan) has an unknown shape: %s", fset.Position(e.Pos()), text(e))
	return nil
}

// guardOfClose: conjunction of the conditions of all if statements enclosing close(<recv>.shutdownChan) in body
func guardOfClose(body *ast.BlockStmt, recv string) (bexpr, string, bool) {
	var res bexpr
	var txt []string
	found := false
	var walk func(list []ast.Stmt, conds []ast.Expr)
	walk = func(list []ast.Stmt, conds []ast.Expr) {
		for _, s := range list {
			switch v := s.(type) {
			case *ast.IfStmt:
				if v.Init != nil {
					die("%s: if with init statement in Shutdown", fset.Position(v.Pos()))
				}
				walk(v.Body.List, append(append([]ast.Expr{}, conds...), v.Cond))
				if v.Else != nil {
					neg := &ast.UnaryExpr{Op: token.NOT, X: &ast.ParenExpr{X: v.Cond}}
					switch e := v.Else.(type) {
					case *ast.BlockStmt:
						walk(e.List, append(append([]ast.Expr{}, conds...), neg))
					default:
						walk([]ast.Stmt{e}, append(append([]ast.Expr{}, conds...), neg))
					}
				}
			case *ast.BlockStmt:
				walk(v.List, conds)
			case *ast.DeferStmt, *ast.ExprStmt, *ast.AssignStmt, *ast.ReturnStmt:
				hit := false
				ast.Inspect(s, func(x ast.Node) bool {
					if ce, ok := x.(*ast.CallExpr); ok {
						if id, ok := ce.Fun.(*ast.Ident); ok && id.Name == "close" && len(ce.Args) == 1 && chain(ce.Args[0], recv) == "col.shutdownChan" {
							hit = true
						}
					}
					return true
				})
				if hit {
					if found {
						die("more than one close(shutdownChan) in Shutdown")
					}
					found = true
					gs := []bexpr{}
					for _, c := range conds {
						gs = append(gs, guard(c, recv))
						txt = append(txt, text(c))
					}
					res = func(s string) bool {
						for _, g := range gs {
							if !g(s) {
								return false
							}
						}
						return true
					}
				}
			default:
				die("%s: statement kind %T in Shutdown is not a known shape", fset.Position(s.Pos()), s)
			}
		}
	}
	walk(body.List, nil)
	return res, strings.Join(txt, " && "), found
}

// ---- select of Run ----

type branch struct {
	ch, cond, onTrue, onFalse string
}

// outcome of a statement list of a select clause: "stop" (break LOOP / return col.shutdown(..)), "reload"
// (if err := col.reloadConfiguration(ctx); err != nil { return err }), "" = falls through to the next loop iteration
func outcome(list []ast.Stmt, recv, label string) string {
	res := ""
	for _, s := range list {
		switch v := s.(type) {
		case *ast.ExprStmt:
			ce, ok := v.X.(*ast.CallExpr)
			if !ok {
				die("%s: unknown statement in select clause: %s", fset.Position(s.Pos()), text(s))
			}
			// logger calls only
			if !strings.HasPrefix(text(ce.Fun), recv+".service.Logger().") {
				die("%s: unknown call in select clause: %s", fset.Position(s.Pos()), text(s))
			}
		case *ast.BranchStmt:
			if v.Tok == token.BREAK && v.Label != nil && v.Label.Name == label {
				return "stop"
			}
			die("%s: unknown branch statement in select clause: %s", fset.Position(s.Pos()), text(s))
		case *ast.ReturnStmt:
			if len(v.Results) == 1 {
				if ce, ok := v.Results[0].(*ast.CallExpr); ok && chain(ce.Fun, recv) == "col.shutdown" {
					if len(ce.Args) == 1 && text(ce.Args[0]) == "context.Background()" {
						return "stop-background-ctx"
					}
					return "stop"
				}
			}
			die("%s: unknown return in select clause: %s", fset.Position(s.Pos()), text(s))
		case *ast.IfStmt:
			// if err [:]= col.reloadConfiguration(ctx); err != nil { return err }
			if as, ok := v.Init.(*ast.AssignStmt); ok && len(as.Rhs) == 1 {
				if ce, ok := as.Rhs[0].(*ast.CallExpr); ok && chain(ce.Fun, recv) == "col.reloadConfiguration" &&
					text(v.Cond) == "err != nil" && len(v.Body.List) == 1 && text(v.Body.List[0]) == "return err" && v.Else == nil {
					res = "reload"
					continue
				}
			}
			die("%s: unknown if in select clause (nested): %s", fset.Position(s.Pos()), text(v.Cond))
		default:
			die("%s: unknown statement kind %T in select clause", fset.Position(s.Pos()), s)
		}
	}
	return res
}

func selectBranches(sel *ast.SelectStmt, recv, label string) []branch {
	var out []branch
	for _, cl := range sel.Body.List {
		cc := cl.(*ast.CommClause)
		if cc.Comm == nil {
			die("%s: select in Run has a default clause", fset.Position(cc.Pos()))
		}
		var rx ast.Expr
		switch c := cc.Comm.(type) {
		case *ast.ExprStmt:
			rx = c.X
		case *ast.AssignStmt:
			rx = c.Rhs[0]
		}
		u, ok := rx.(*ast.UnaryExpr)
		if !ok || u.Op != token.ARROW {
			die("%s: select clause is not a receive", fset.Position(cc.Pos()))
		}
		ch := text(u.X)
		ch = strings.Replace(ch, recv+".", "col.", 1)
		b := branch{ch: ch}
		// a leading `if <cond> { ... }` (no init) splits the branch
		body := cc.Body
		split := -1
		for i, s := range body {
			if is, ok := s.(*ast.IfStmt); ok && is.Init == nil {
				if split >= 0 {
					die("%s: two conditionals in one select clause", fset.Position(s.Pos()))
				}
				split = i
			}
		}
		if split < 0 {
			o := outcome(body, recv, label)
			if o == "" {
				die("%s: select clause %s neither stops nor reloads", fset.Position(cc.Pos()), ch)
			}
			b.onTrue, b.onFalse = o, o
		} else {
			is := body[split].(*ast.IfStmt)
			if is.Else != nil {
				die("%s: else in select clause", fset.Position(is.Pos()))
			}
			b.cond = text(is.Cond)
			pre := outcome(body[:split], recv, label)
			if pre != "" {
				die("%s: select clause %s acts before its conditional", fset.Position(cc.Pos()), ch)
			}
			b.onTrue = outcome(is.Body.List, recv, label)
			b.onFalse = outcome(body[split+1:], recv, label)
			if b.onTrue == "" {
				// falling out of the if continues with the rest
				b.onTrue = b.onFalse
			}
			if b.onTrue == "" || b.onFalse == "" {
				die("%s: select clause %s: an arm neither stops nor reloads", fset.Position(cc.Pos()), ch)
			}
		}
		out = append(out, b)
	}
	return out
}

// chanCapsOf: fields initialised with make(chan T[, n]) in the composite literals of function fnName of the parsed files
func chanCapsOf(files []*ast.File, fnName, prefix string) [][2]string {
	var out [][2]string
	for _, f := range files {
		for _, d := range f.Decls {
			fd, ok := d.(*ast.FuncDecl)
			if !ok || fd.Body == nil || fd.Recv != nil || fd.Name.Name != fnName {
				continue
			}
			ast.Inspect(fd.Body, func(x ast.Node) bool {
				kv, ok := x.(*ast.KeyValueExpr)
				if !ok {
					return true
				}
				key, ok := kv.Key.(*ast.Ident)
				if !ok {
					return true
				}
				ce, ok := kv.Value.(*ast.CallExpr)
				if !ok {
					return true
				}
				if id, ok := ce.Fun.(*ast.Ident); !ok || id.Name != "make" || len(ce.Args) == 0 {
					return true
				}
				if _, ok := ce.Args[0].(*ast.ChanType); !ok {
					return true
				}
				capv := "0"
				if len(ce.Args) == 2 {
					bl, ok := ce.Args[1].(*ast.BasicLit)
					if !ok || bl.Kind != token.INT {
						die("%s: channel capacity of %s is not an integer literal", fset.Position(ce.Pos()), key.Name)
					}
					capv = bl.Value
				}
				out = append(out, [2]string{prefix + key.Name, capv})
				return true
			})
		}
	}
	return out
}

// sendShape classifies the (single) send on <recv>.<field> inside method typ.fn of file f:
//   "blocking"               a plain send statement on the calling goroutine
//   "select-default"         non-blocking: a select with a default clause
//   "goroutine-select-done"  go func() { select { case ch <- v: case <-<x>.Done: } }()
//   "goroutine-blocking"     go func() { ch <- v }()
func sendShape(f *ast.File, typ, fn, field string) string {
	for _, d := range f.Decls {
		fd, ok := d.(*ast.FuncDecl)
		if !ok || fd.Body == nil {
			continue
		}
		name, _ := funcName(fd)
		if name != typ+"."+fn {
			continue
		}
		shape := ""
		var walk func(n ast.Node, inGo bool, sel *ast.SelectStmt)
		walk = func(n ast.Node, inGo bool, sel *ast.SelectStmt) {
			ast.Inspect(n, func(x ast.Node) bool {
				switch v := x.(type) {
				case *ast.GoStmt:
					if fl, ok := v.Call.Fun.(*ast.FuncLit); ok {
						walk(fl.Body, true, nil)
						return false
					}
				case *ast.SelectStmt:
					if v != sel {
						walk(v.Body, inGo, v)
						return false
					}
				case *ast.SendStmt:
					se, ok := v.Chan.(*ast.SelectorExpr)
					if !ok || se.Sel.Name != field {
						return true
					}
					if shape != "" {
						die("%s.%s: more than one send on %s", typ, fn, field)
					}
					switch {
					case sel == nil && !inGo:
						shape = "blocking"
					case sel == nil && inGo:
						shape = "goroutine-blocking"
					default:
						hasDefault, hasDone := false, false
						for _, cl := range sel.Body.List {
							cc := cl.(*ast.CommClause)
							if cc.Comm == nil {
								hasDefault = true
							} else if strings.HasSuffix(text(cc.Comm), ".Done") && strings.HasPrefix(text(cc.Comm), "<-") {
								hasDone = true
							}
						}
						switch {
						case hasDefault:
							shape = "select-default"
						case hasDone && inGo && len(sel.Body.List) == 2:
							shape = "goroutine-select-done"
						default:
							die("%s.%s: send on %s inside a select of unknown shape", typ, fn, field)
						}
					}
				}
				return true
			})
		}
		walk(fd.Body, false, nil)
		if shape == "" {
			die("%s.%s: no send on %s found", typ, fn, field)
		}
		return shape
	}
	die("method %s.%s not found", typ, fn)
	return ""
}

func q(s string) string { return fmt.Sprintf("%q", s) }

func main() {
	if len(os.Args) < 2 {
		die("usage: collectorfsm <repo>")
	}
	dir := filepath.Join(os.Args[1], "otelcol")
	ents, err := os.ReadDir(dir)
	if err != nil {
		die("%v", err)
	}
	var files []*ast.File
	for _, e := range ents {
		n := e.Name()
		if e.IsDir() || !strings.HasSuffix(n, ".go") || strings.HasSuffix(n, "_test.go") {
			continue
		}
		f, err := parser.ParseFile(fset, filepath.Join(dir, n), nil, 0)
		if err != nil {
			die("%v", err)
		}
		files = append(files, f)
	}

	// State constants (iota order)
	var consts []string
	for _, f := range files {
		for _, d := range f.Decls {
			gd, ok := d.(*ast.GenDecl)
			if !ok || gd.Tok != token.CONST {
				continue
			}
			isState := false
			for i, sp := range gd.Specs {
				vs := sp.(*ast.ValueSpec)
				if i == 0 {
					if id, ok := vs.Type.(*ast.Ident); ok && id.Name == "State" && len(vs.Values) == 1 && text(vs.Values[0]) == "iota" {
						isState = true
					}
				} else if isState && (vs.Type != nil || len(vs.Values) != 0) {
					die("State const block is not a plain iota enumeration")
				}
				if isState {
					for _, nm := range vs.Names {
						st, ok := stateName(nm)
						if !ok {
							die("State constant %s does not have the State prefix", nm.Name)
						}
						consts = append(consts, st)
					}
				}
			}
		}
	}
	if len(consts) == 0 {
		die("State constants not found")
	}

	type fn struct {
		name string
		pos  token.Pos
		c    *collector
		fd   *ast.FuncDecl
	}
	var fns []fn
	var rawStores []string
	initial := ""
	for _, f := range files {
		for _, d := range f.Decls {
			fd, ok := d.(*ast.FuncDecl)
			if !ok || fd.Body == nil {
				continue
			}
			name, recv := funcName(fd)
			// writers of <x>.state / state
			writes := false
			ast.Inspect(fd.Body, func(x ast.Node) bool {
				ce, ok := x.(*ast.CallExpr)
				if !ok {
					return true
				}
				sel, ok := ce.Fun.(*ast.SelectorExpr)
				if !ok {
					return true
				}
				switch sel.Sel.Name {
				case "Store", "Swap", "CompareAndSwap", "Add", "And", "Or":
				default:
					return true
				}
				tgt := chain(sel.X, recv)
				if tgt == "col.state" || tgt == "state" {
					writes = true
					if name == "NewCollector" {
						// state.Store(int64(StateX))
						if len(ce.Args) == 1 {
							if cv, ok := ce.Args[0].(*ast.CallExpr); ok && len(cv.Args) == 1 {
								if st, ok := stateName(cv.Args[0]); ok {
									initial = st
								}
							}
						}
					}
				}
				return true
			})
			if writes {
				rawStores = append(rawStores, name)
			}
			if !strings.HasPrefix(name, "Collector.") {
				continue
			}
			c := &collector{recv: recv}
			c.stmts(fd.Body.List, 0)
			fns = append(fns, fn{name, fd.Pos(), c, fd})
		}
	}
	if initial == "" {
		die("NewCollector no longer stores an initial State constant")
	}
	sort.Strings(rawStores)
	sort.Slice(fns, func(i, j int) bool { return fset.Position(fns[i].pos).String() < fset.Position(fns[j].pos).String() })

	byName := map[string]fn{}
	for _, f := range fns {
		byName[f.name] = f
	}
	for _, need := range []string{"Collector.Run", "Collector.Shutdown", "Collector.shutdown", "Collector.reloadConfiguration",
		"Collector.setupConfigurationComponents", "Collector.setCollectorState", "Collector.DryRun"} {
		if _, ok := byName[need]; !ok {
			die("method %s not found", need)
		}
	}

	// guard
	sh := byName["Collector.Shutdown"]
	_, shRecv := funcName(sh.fd)
	g, gtxt, found := guardOfClose(sh.fd.Body, shRecv)
	if !found {
		die("close(shutdownChan) not found in (*Collector).Shutdown")
	}
	var honours []string
	for _, s := range consts {
		if g(s) {
			honours = append(honours, s)
		}
	}

	// Run: the select, its label, what follows the loop
	run := byName["Collector.Run"]
	_, runRecv := funcName(run.fd)
	var sel *ast.SelectStmt
	label := ""
	after := ""
	for i, s := range run.fd.Body.List {
		ls, ok := s.(*ast.LabeledStmt)
		if !ok {
			continue
		}
		fs, ok := ls.Stmt.(*ast.ForStmt)
		if !ok || fs.Cond != nil || fs.Init != nil || fs.Post != nil || len(fs.Body.List) != 1 {
			die("labelled statement in Run is not `for { select {...} }`")
		}
		sel, ok = fs.Body.List[0].(*ast.SelectStmt)
		if !ok {
			die("loop body in Run is not a single select")
		}
		label = ls.Label.Name
		rest := run.fd.Body.List[i+1:]
		if len(rest) != 1 {
			die("Run: expected exactly one statement after the loop")
		}
		after = outcome(rest, runRecv, label)
	}
	if sel == nil {
		die("Run: labelled for/select loop not found")
	}
	branches := selectBranches(sel, runRecv, label)
	stopDeferred := false
	for _, e := range run.c.seq {
		if e.name == "defer signal.Stop" && e.depth == 0 {
			stopDeferred = true
		}
	}

	fmt.Println("/-! GENERATED by translators/cmd/collectorfsm from the non-test files of otelcol/ — do not edit.")
	fmt.Println("Straight-line facts about the collector's lifecycle code (state constants, state writers, setCollectorState sites,")
	fmt.Println("truth table of the Shutdown() guard, call sequences of the lifecycle functions, signal registrations, select branches). -/")
	fmt.Println("namespace OtelVerif.Gen.CollectorFsm")
	fmt.Println()
	fmt.Println("/-- `State` constants in iota order (prefix `State` stripped) -/")
	fmt.Printf("def stateConsts : List String := [%s]\n\n", quoteAll(consts))
	fmt.Println("/-- the State constant `NewCollector` stores -/")
	fmt.Printf("def initialState : String := %s\n\n", q(initial))
	fmt.Println("/-- functions that write the state word directly (`state.Store/Swap/CompareAndSwap/...`) -/")
	fmt.Printf("def rawStateWriters : List String := [%s]\n\n", quoteAll(rawStores))
	fmt.Println("/-- every `setCollectorState(StateX)` call: (function, X), in source order -/")
	fmt.Print("def setSites : List (String × String) := [")
	first := true
	for _, f := range fns {
		for _, e := range f.c.seq {
			if strings.HasPrefix(e.name, "set:") {
				if !first {
					fmt.Print(", ")
				}
				first = false
				fmt.Printf("(%s, %s)", q(f.name), q(strings.TrimPrefix(e.name, "set:")))
			}
		}
	}
	fmt.Println("]")
	fmt.Println()
	fmt.Printf("/-- condition guarding `close(shutdownChan)` in `(*Collector).Shutdown`: `%s` -/\n", gtxt)
	fmt.Printf("def guardText : String := %s\n", q(gtxt))
	fmt.Println("/-- the State constants for which that condition is true -/")
	fmt.Printf("def guardHonours : List String := [%s]\n\n", quoteAll(honours))
	fmt.Println("/-- per method of Collector: the calls that matter, in source order; depth 0 = straight path, >0 = inside that many if/else/select bodies -/")
	fmt.Println("def callSeq : List (String × List (Nat × String)) := [")
	for i, f := range fns {
		var es []string
		for _, e := range f.c.seq {
			es = append(es, fmt.Sprintf("(%d, %s)", e.depth, q(e.name)))
		}
		sep := ","
		if i == len(fns)-1 {
			sep = ""
		}
		fmt.Printf("  (%s, [%s])%s\n", q(f.name), strings.Join(es, ", "), sep)
	}
	fmt.Println("]")
	fmt.Println()
	fmt.Println("/-- `signal.Notify(col.signalsChannel, …)` in Run: (enclosing condition, signals) -/")
	fmt.Print("def runNotify : List (String × List String) := [")
	for i, n := range run.c.notify {
		if i > 0 {
			fmt.Print(", ")
		}
		fmt.Printf("(%s, [%s])", q(n.cond), quoteAll(n.sigs))
	}
	fmt.Println("]")
	fmt.Printf("def signalStopDeferred : Bool := %v\n\n", stopDeferred)
	caps := chanCapsOf(files, "NewCollector", "")
	rf, err := parser.ParseFile(fset, filepath.Join(os.Args[1], "confmap", "resolver.go"), nil, 0)
	if err != nil {
		die("%v", err)
	}
	caps = append(caps, chanCapsOf([]*ast.File{rf}, "NewResolver", "resolver.")...)
	if len(caps) == 0 {
		die("no channel fields found in NewCollector / NewResolver")
	}
	fmt.Println("/-- channels made by NewCollector / confmap.NewResolver: (field, capacity) -/")
	fmt.Print("def chanCaps : List (String × Nat) := [")
	for i, c := range caps {
		if i > 0 {
			fmt.Print(", ")
		}
		fmt.Printf("(%s, %s)", q(c[0]), c[1])
	}
	fmt.Println("]")
	fmt.Println()
	hf, err := parser.ParseFile(fset, filepath.Join(os.Args[1], "service", "internal", "graph", "host.go"), nil, 0)
	if err != nil {
		die("%v", err)
	}
	fmt.Println("/-- how `Resolver.onChange` (the WatcherFunc handed to providers) puts a notification on the watch channel -/")
	fmt.Printf("def watcherSend : String := %s\n", q(sendShape(rf, "Resolver", "onChange", "watcher")))
	fmt.Println("/-- how `graph.Host.NotifyComponentStatusChange` hands a component's FatalError to `asyncErrorChannel` -/")
	fmt.Printf("def fatalHandover : String := %s\n\n", q(sendShape(hf, "Host", "NotifyComponentStatusChange", "AsyncErrorChannel")))
	fmt.Println("/-- branches of Run's select: (channel, distinguishing condition, outcome if it holds, outcome otherwise) -/")
	fmt.Println("def selectBranches : List (String × String × String × String) := [")
	for i, b := range branches {
		sep := ","
		if i == len(branches)-1 {
			sep = ""
		}
		fmt.Printf("  (%s, %s, %s, %s)%s\n", q(b.ch), q(b.cond), q(b.onTrue), q(b.onFalse), sep)
	}
	fmt.Println("]")
	fmt.Println("/-- the statement after the loop -/")
	fmt.Printf("def afterLoop : String := %s\n", q(after))
	fmt.Println()
	fmt.Println("end OtelVerif.Gen.CollectorFsm")
}

func quoteAll(a []string) string {
	var qs []string
	for _, s := range a {
		qs = append(qs, q(s))
	}
	return strings.Join(qs, ", ")
}
