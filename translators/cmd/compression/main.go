// compression regenerates lean/OtelVerif/Gen/Compression.lean from
//
//	config/confighttp/compression.go  (availableDecoders map literal, the enable loop of httpContentDecompressor,
//	                                   decompressor.ServeHTTP, compressRoundTripper.RoundTrip)
//	config/confighttp/compressor.go   (switch of newWriteCloserResetFunc)
//	config/confighttp/confighttp.go   (defaults, order of the two body-size wrappers in ToServer)
//	config/configcompression/compressiontype.go (Type constants, IsCompressed)
//
// Only data and small structural facts are extracted. If the source no longer has the expected shape
// the program exits 2 ("the tie no longer checks").
package main

import (
	"fmt"
	"go/ast"
	"go/parser"
	"go/token"
	"os"
	"path/filepath"
	"strconv"
	"strings"
)

func die(format string, a ...any) {
	fmt.Fprintf(os.Stderr, "compression: "+format+"\n", a...)
	os.Exit(2)
}

func parse(path string) *ast.File {
	f, err := parser.ParseFile(token.NewFileSet(), path, nil, 0)
	if err != nil {
		die("%v", err)
	}
	return f
}

func strLit(e ast.Expr) (string, bool) {
	bl, ok := e.(*ast.BasicLit)
	if !ok || bl.Kind != token.STRING {
		return "", false
	}
	s, err := strconv.Unquote(bl.Value)
	return s, err == nil
}

func funcDecl(f *ast.File, recv, name string) *ast.FuncDecl {
	for _, d := range f.Decls {
		fd, ok := d.(*ast.FuncDecl)
		if !ok || fd.Name.Name != name {
			continue
		}
		if recv == "" && fd.Recv == nil {
			return fd
		}
		if recv != "" && fd.Recv != nil && len(fd.Recv.List) == 1 {
			t := fd.Recv.List[0].Type
			if st, ok := t.(*ast.StarExpr); ok {
				t = st.X
			}
			if id, ok := t.(*ast.Ident); ok && id.Name == recv {
				return fd
			}
		}
	}
	die("func %s.%s not found", recv, name)
	return nil
}

// pkgCalls returns the package identifiers X of calls X.<fn>(…) with fn having the given prefix, in n.
func pkgCalls(n ast.Node, prefix string) []string {
	var out []string
	ast.Inspect(n, func(n ast.Node) bool {
		call, ok := n.(*ast.CallExpr)
		if !ok {
			return true
		}
		if se, ok := call.Fun.(*ast.SelectorExpr); ok && strings.HasPrefix(se.Sel.Name, prefix) {
			if id, ok := se.X.(*ast.Ident); ok {
				out = append(out, id.Name)
			}
		}
		return true
	})
	return out
}

func leanStr(s string) string { return strconv.Quote(s) }

func leanStrList(xs []string) string {
	var q []string
	for _, x := range xs {
		q = append(q, leanStr(x))
	}
	return "[" + strings.Join(q, ", ") + "]"
}

// isIndex reports whether e is <m>[<k>] with identifiers m, k.
func isIndex(e ast.Expr, m, k string) bool {
	ix, ok := e.(*ast.IndexExpr)
	if !ok {
		return false
	}
	a, ok1 := ix.X.(*ast.Ident)
	b, ok2 := ix.Index.(*ast.Ident)
	return ok1 && ok2 && a.Name == m && b.Name == k
}

func main() {
	repo := os.Args[1]
	cf := parse(filepath.Join(repo, "config/confighttp/compression.go"))

	// 1. availableDecoders map literal: key -> package whose NewReader is called (or identity: `return nil, nil`)
	type decEntry struct{ key, lib string }
	var decs []decEntry
	found := false
	for _, d := range cf.Decls {
		gd, ok := d.(*ast.GenDecl)
		if !ok || gd.Tok != token.VAR {
			continue
		}
		for _, s := range gd.Specs {
			vs := s.(*ast.ValueSpec)
			if len(vs.Names) != 1 || vs.Names[0].Name != "availableDecoders" || len(vs.Values) != 1 {
				continue
			}
			lit, ok := vs.Values[0].(*ast.CompositeLit)
			if !ok {
				die("availableDecoders is not a composite literal")
			}
			found = true
			for _, e := range lit.Elts {
				kv, ok := e.(*ast.KeyValueExpr)
				if !ok {
					die("availableDecoders entry is not key: value")
				}
				key, ok := strLit(kv.Key)
				if !ok {
					die("availableDecoders key is not a string literal")
				}
				fl, ok := kv.Value.(*ast.FuncLit)
				if !ok {
					die("availableDecoders[%q] is not a func literal", key)
				}
				libs := pkgCalls(fl, "NewReader")
				switch {
				case len(libs) == 1:
					decs = append(decs, decEntry{key, libs[0]})
				case len(libs) == 0:
					// identity: the body must be exactly `return nil, nil`
					if len(fl.Body.List) != 1 {
						die("availableDecoders[%q]: no NewReader call and not a single return", key)
					}
					rs, ok := fl.Body.List[0].(*ast.ReturnStmt)
					if !ok || len(rs.Results) != 2 {
						die("availableDecoders[%q]: expected `return nil, nil`", key)
					}
					for _, r := range rs.Results {
						if id, ok := r.(*ast.Ident); !ok || id.Name != "nil" {
							die("availableDecoders[%q]: expected `return nil, nil`", key)
						}
					}
					decs = append(decs, decEntry{key, ""})
				default:
					die("availableDecoders[%q]: more than one NewReader call", key)
				}
			}
		}
	}
	if !found {
		die("availableDecoders not found")
	}

	// 2. the enable loop of httpContentDecompressor
	hd := funcDecl(cf, "", "httpContentDecompressor")
	var loop *ast.RangeStmt
	for _, st := range hd.Body.List {
		if rs, ok := st.(*ast.RangeStmt); ok {
			if id, ok := rs.X.(*ast.Ident); ok && id.Name == "enableDecoders" {
				loop = rs
			}
		}
	}
	if loop == nil {
		die("`for _, dec := range enableDecoders` not found in httpContentDecompressor")
	}
	val, _ := loop.Value.(*ast.Ident)
	if val == nil {
		die("enable loop has no value variable")
	}
	dec := val.Name
	installsNil := false
	var aliases [][2]string
	sawInstall := false
	for _, st := range loop.Body.List {
		switch x := st.(type) {
		case *ast.AssignStmt:
			// enabled[dec] = availableDecoders[dec]      (unconditional: a nil func for an unknown name)
			if len(x.Lhs) == 1 && len(x.Rhs) == 1 && isIndex(x.Lhs[0], "enabled", dec) && isIndex(x.Rhs[0], "availableDecoders", dec) {
				installsNil, sawInstall = true, true
				continue
			}
			die("enable loop: unexpected assignment")
		case *ast.IfStmt:
			if x.Else != nil {
				die("enable loop: if with else")
			}
			if x.Init != nil {
				// if f, ok := availableDecoders[dec]; ok { enabled[dec] = f }
				as, ok := x.Init.(*ast.AssignStmt)
				cond, ok2 := x.Cond.(*ast.Ident)
				if !ok || !ok2 || len(as.Lhs) != 2 || len(as.Rhs) != 1 || !isIndex(as.Rhs[0], "availableDecoders", dec) ||
					as.Lhs[1].(*ast.Ident).Name != cond.Name || len(x.Body.List) != 1 {
					die("enable loop: unexpected guarded statement")
				}
				in, ok := x.Body.List[0].(*ast.AssignStmt)
				if !ok || len(in.Lhs) != 1 || !isIndex(in.Lhs[0], "enabled", dec) {
					die("enable loop: guarded body is not enabled[dec] = …")
				}
				if id, ok := in.Rhs[0].(*ast.Ident); !ok || id.Name != as.Lhs[0].(*ast.Ident).Name {
					die("enable loop: guarded body does not store the looked-up decoder")
				}
				sawInstall = true
				continue
			}
			// if dec == "<from>" { enabled["<from>"] = availableDecoders["<to>"] }
			be, ok := x.Cond.(*ast.BinaryExpr)
			if !ok || be.Op != token.EQL {
				die("enable loop: unexpected condition")
			}
			l, ok1 := be.X.(*ast.Ident)
			from, ok2 := strLit(be.Y)
			if !ok1 || !ok2 || l.Name != dec || len(x.Body.List) != 1 {
				die("enable loop: unexpected alias condition")
			}
			as, ok := x.Body.List[0].(*ast.AssignStmt)
			if !ok || len(as.Lhs) != 1 || len(as.Rhs) != 1 {
				die("enable loop: alias body is not an assignment")
			}
			li, ok1 := as.Lhs[0].(*ast.IndexExpr)
			ri, ok2 := as.Rhs[0].(*ast.IndexExpr)
			if !ok1 || !ok2 {
				die("enable loop: alias body is not m[k] = m'[k']")
			}
			lk, ok1 := strLit(li.Index)
			rk, ok2 := strLit(ri.Index)
			lm, _ := li.X.(*ast.Ident)
			rm, _ := ri.X.(*ast.Ident)
			if !ok1 || !ok2 || lm == nil || rm == nil || lm.Name != "enabled" || rm.Name != "availableDecoders" || lk != from {
				die("enable loop: alias body has an unexpected shape")
			}
			if !sawInstall {
				die("enable loop: alias precedes the plain installation (order matters for the model)")
			}
			aliases = append(aliases, [2]string{from, rk})
		default:
			die("enable loop: unexpected statement")
		}
	}
	if !sawInstall {
		die("enable loop never installs availableDecoders[dec]")
	}

	// 2b. the rest of httpContentDecompressor: exactly
	//   errHandler := …; if eh != nil {…}; enabled := map[…]…{}; for … range enableDecoders {…};
	//   d := &decompressor{…, decoders: enabled}; for key, dec := range decoders { d.decoders[key] = dec }; return d
	if len(hd.Body.List) != 7 {
		die("httpContentDecompressor no longer has 7 statements")
	}
	if as, ok := hd.Body.List[2].(*ast.AssignStmt); !ok || len(as.Lhs) != 1 || len(as.Rhs) != 1 {
		die("httpContentDecompressor: statement 3 is not `enabled := map…{}`")
	} else {
		id, ok1 := as.Lhs[0].(*ast.Ident)
		lit, ok2 := as.Rhs[0].(*ast.CompositeLit)
		if !ok1 || !ok2 || id.Name != "enabled" || as.Tok != token.DEFINE || len(lit.Elts) != 0 {
			die("httpContentDecompressor: `enabled` is not initialised with an empty map literal")
		}
		if _, ok := lit.Type.(*ast.MapType); !ok {
			die("httpContentDecompressor: `enabled` is not a fresh map")
		}
	}
	if hd.Body.List[3] != ast.Stmt(loop) {
		die("httpContentDecompressor: the enable loop is not statement 4")
	}
	if as, ok := hd.Body.List[4].(*ast.AssignStmt); !ok || len(as.Rhs) != 1 {
		die("httpContentDecompressor: statement 5 is not `d := &decompressor{…}`")
	} else {
		ue, ok := as.Rhs[0].(*ast.UnaryExpr)
		if !ok || ue.Op != token.AND {
			die("httpContentDecompressor: statement 5 is not `d := &decompressor{…}`")
		}
		lit, ok := ue.X.(*ast.CompositeLit)
		if !ok {
			die("httpContentDecompressor: statement 5 is not a composite literal")
		}
		okDec := false
		for _, e := range lit.Elts {
			kv, ok := e.(*ast.KeyValueExpr)
			if !ok {
				die("httpContentDecompressor: unkeyed decompressor literal")
			}
			if k, ok := kv.Key.(*ast.Ident); ok && k.Name == "decoders" {
				if v, ok := kv.Value.(*ast.Ident); ok && v.Name == "enabled" {
					okDec = true
				}
			}
		}
		if !okDec {
			die("httpContentDecompressor: decompressor.decoders is not the freshly built `enabled` map")
		}
	}
	if rs, ok := hd.Body.List[5].(*ast.RangeStmt); !ok {
		die("httpContentDecompressor: statement 6 is not the custom-decoder loop")
	} else {
		x, ok1 := rs.X.(*ast.Ident)
		k, ok2 := rs.Key.(*ast.Ident)
		v, ok3 := rs.Value.(*ast.Ident)
		if !ok1 || !ok2 || !ok3 || x.Name != "decoders" || len(rs.Body.List) != 1 {
			die("httpContentDecompressor: custom-decoder loop has an unexpected shape")
		}
		as, ok := rs.Body.List[0].(*ast.AssignStmt)
		if !ok || len(as.Lhs) != 1 || len(as.Rhs) != 1 || as.Tok != token.ASSIGN {
			die("httpContentDecompressor: custom-decoder loop body is not one assignment")
		}
		li, ok := as.Lhs[0].(*ast.IndexExpr)
		if !ok {
			die("httpContentDecompressor: custom-decoder loop does not write a map entry")
		}
		sel, ok1 := li.X.(*ast.SelectorExpr)
		ki, ok2 := li.Index.(*ast.Ident)
		ri, ok3 := as.Rhs[0].(*ast.Ident)
		if !ok1 || !ok2 || !ok3 || sel.Sel.Name != "decoders" || ki.Name != k.Name || ri.Name != v.Name {
			die("httpContentDecompressor: custom-decoder loop is not `d.decoders[key] = dec`")
		}
		if base, ok := sel.X.(*ast.Ident); !ok || base.Name != "d" {
			die("httpContentDecompressor: custom decoders are not written into d.decoders")
		}
	}
	if _, ok := hd.Body.List[6].(*ast.ReturnStmt); !ok {
		die("httpContentDecompressor: last statement is not a return")
	}

	// 2c. package-level state: `availableDecoders` may only be READ (indexed on a right-hand side, or ranged over)
	// anywhere in the package; a write, delete, alias or hand-off makes one server's options visible to others.
	onlyRead := true
	entries, err := os.ReadDir(filepath.Join(repo, "config/confighttp"))
	if err != nil {
		die("%v", err)
	}
	for _, ent := range entries {
		nm := ent.Name()
		if ent.IsDir() || !strings.HasSuffix(nm, ".go") || strings.HasSuffix(nm, "_test.go") {
			continue
		}
		f := parse(filepath.Join(repo, "config/confighttp", nm))
		allowed := map[*ast.Ident]bool{}
		ast.Inspect(f, func(n ast.Node) bool {
			switch x := n.(type) {
			case *ast.ValueSpec:
				for _, id := range x.Names {
					allowed[id] = true
				}
			case *ast.AssignStmt:
				// reads on the right-hand side only
				for _, r := range x.Rhs {
					ast.Inspect(r, func(n ast.Node) bool {
						if ix, ok := n.(*ast.IndexExpr); ok {
							if id, ok := ix.X.(*ast.Ident); ok {
								allowed[id] = true
							}
						}
						return true
					})
				}
			case *ast.IfStmt:
				if as, ok := x.Init.(*ast.AssignStmt); ok {
					for _, r := range as.Rhs {
						if ix, ok := r.(*ast.IndexExpr); ok {
							if id, ok := ix.X.(*ast.Ident); ok {
								allowed[id] = true
							}
						}
					}
				}
			case *ast.RangeStmt:
				if id, ok := x.X.(*ast.Ident); ok {
					allowed[id] = true
				}
			}
			return true
		})
		ast.Inspect(f, func(n ast.Node) bool {
			if id, ok := n.(*ast.Ident); ok && id.Name == "availableDecoders" && !allowed[id] {
				onlyRead = false
			}
			return true
		})
	}

	// 3. decompressor.ServeHTTP: errHandler(..., http.StatusXxx) + return; MaxBytesReader(w, newBody, d.maxRequestBodySize)
	sh := funcDecl(cf, "decompressor", "ServeHTTP")
	rejectConst := ""
	limitOnDecoded := false
	ast.Inspect(sh, func(n ast.Node) bool {
		call, ok := n.(*ast.CallExpr)
		if !ok {
			return true
		}
		se, ok := call.Fun.(*ast.SelectorExpr)
		if !ok {
			return true
		}
		if se.Sel.Name == "errHandler" && len(call.Args) == 4 {
			if a, ok := call.Args[3].(*ast.SelectorExpr); ok {
				if rejectConst != "" {
					die("ServeHTTP: more than one errHandler call")
				}
				rejectConst = a.Sel.Name
			}
		}
		if se.Sel.Name == "MaxBytesReader" && len(call.Args) == 3 {
			a1, ok1 := call.Args[1].(*ast.Ident)
			a2, ok2 := call.Args[2].(*ast.SelectorExpr)
			if ok1 && ok2 && a1.Name == "newBody" && a2.Sel.Name == "maxRequestBodySize" {
				limitOnDecoded = true
			}
		}
		return true
	})
	statusOf := map[string]int{"StatusBadRequest": 400, "StatusUnsupportedMediaType": 415, "StatusRequestEntityTooLarge": 413}
	rejectStatus, ok := statusOf[rejectConst]
	if !ok {
		die("ServeHTTP: errHandler status constant %q not recognised", rejectConst)
	}
	if !limitOnDecoded {
		die("ServeHTTP: http.MaxBytesReader(w, newBody, d.maxRequestBodySize) not found")
	}
	if len(sh.Body.List) != 4 {
		die("ServeHTTP no longer has 4 statements {newBody, err := …; if err != nil {…; return}; if newBody != nil {…}; d.base.ServeHTTP}")
	}

	// 4. RoundTrip: skip when the header is already set; header value = string(r.compressionType)
	rt := funcDecl(cf, "compressRoundTripper", "RoundTrip")
	first, ok := rt.Body.List[0].(*ast.IfStmt)
	if !ok {
		die("RoundTrip: first statement is not the Content-Encoding guard")
	}
	if be, ok := first.Cond.(*ast.BinaryExpr); !ok || be.Op != token.NEQ {
		die("RoundTrip: guard is not `… != \"\"`")
	} else if s, ok := strLit(be.Y); !ok || s != "" {
		die("RoundTrip: guard is not `… != \"\"`")
	}
	// the outgoing request is built afresh from the compressed buffer (so that Body, ContentLength AND GetBody all describe the
	// compressed bytes): `http.NewRequestWithContext(<ctx>, <method>, <url>, buf)`
	builtFromBuf := false
	ast.Inspect(rt, func(n ast.Node) bool {
		call, ok := n.(*ast.CallExpr)
		if !ok {
			return true
		}
		if se, ok := call.Fun.(*ast.SelectorExpr); ok && se.Sel.Name == "NewRequestWithContext" && len(call.Args) == 4 {
			if id, ok := call.Args[3].(*ast.Ident); ok && id.Name == "buf" {
				builtFromBuf = true
			}
		}
		return true
	})
	if !builtFromBuf {
		die("RoundTrip: the outgoing request is no longer built with http.NewRequestWithContext(…, buf)")
	}
	hdrConst := ""
	for _, d := range parse(filepath.Join(repo, "config/confighttp/confighttp.go")).Decls {
		gd, ok := d.(*ast.GenDecl)
		if !ok || gd.Tok != token.CONST {
			continue
		}
		for _, s := range gd.Specs {
			vs := s.(*ast.ValueSpec)
			for i, n := range vs.Names {
				if n.Name == "headerContentEncoding" && i < len(vs.Values) {
					hdrConst, _ = strLit(vs.Values[i])
				}
			}
		}
	}
	if hdrConst != "Content-Encoding" {
		die("headerContentEncoding = %q", hdrConst)
	}

	// 5. writers: switch of newWriteCloserResetFunc
	zf := parse(filepath.Join(repo, "config/confighttp/compressor.go"))
	wf := funcDecl(zf, "", "newWriteCloserResetFunc")
	typeConst := map[string]string{}
	tf := parse(filepath.Join(repo, "config/configcompression/compressiontype.go"))
	var typeOrder []string
	for _, d := range tf.Decls {
		gd, ok := d.(*ast.GenDecl)
		if !ok || gd.Tok != token.CONST {
			continue
		}
		for _, s := range gd.Specs {
			vs := s.(*ast.ValueSpec)
			if id, ok := vs.Type.(*ast.Ident); ok && id.Name == "Type" && len(vs.Names) == 1 && len(vs.Values) == 1 {
				if v, ok := strLit(vs.Values[0]); ok {
					typeConst[vs.Names[0].Name] = v
					typeOrder = append(typeOrder, vs.Names[0].Name)
				}
			}
		}
	}
	if len(typeConst) == 0 {
		die("no configcompression.Type constants found")
	}
	var writers [][2]string
	var sw *ast.SwitchStmt
	for _, st := range wf.Body.List {
		if s, ok := st.(*ast.SwitchStmt); ok {
			sw = s
		}
	}
	if sw == nil {
		die("newWriteCloserResetFunc has no switch")
	}
	for _, c := range sw.Body.List {
		cc := c.(*ast.CaseClause)
		if cc.List == nil {
			die("newWriteCloserResetFunc: unexpected default clause")
		}
		libs := pkgCalls(cc, "NewWriter")
		libs = append(libs, pkgCalls(cc, "NewBufferedWriter")...)
		// NewWriterLevel has prefix NewWriter: deduplicate
		uniq := map[string]bool{}
		for _, l := range libs {
			uniq[l] = true
		}
		if len(uniq) != 1 {
			die("newWriteCloserResetFunc: a case does not call exactly one writer constructor: %v", libs)
		}
		for _, e := range cc.List {
			se, ok := e.(*ast.SelectorExpr)
			if !ok {
				die("newWriteCloserResetFunc: case label is not configcompression.TypeX")
			}
			v, ok := typeConst[se.Sel.Name]
			if !ok {
				die("newWriteCloserResetFunc: unknown type constant %s", se.Sel.Name)
			}
			writers = append(writers, [2]string{v, libs[0]})
		}
	}

	// 6. IsCompressed: `*ct != A && *ct != B`
	ic := funcDecl(tf, "Type", "IsCompressed")
	var uncompressed []string
	ast.Inspect(ic, func(n ast.Node) bool {
		be, ok := n.(*ast.BinaryExpr)
		if !ok {
			return true
		}
		if be.Op == token.NEQ {
			if id, ok := be.Y.(*ast.Ident); ok {
				v, ok := typeConst[id.Name]
				if !ok {
					die("IsCompressed compares with unknown %s", id.Name)
				}
				uncompressed = append(uncompressed, v)
			}
		} else if be.Op != token.LAND {
			die("IsCompressed: unexpected operator %s", be.Op)
		}
		return true
	})
	if len(uncompressed) == 0 {
		die("IsCompressed: no comparisons found")
	}
	// UnmarshalText: the accepted constants
	um := funcDecl(tf, "Type", "UnmarshalText")
	var accepted []string
	ast.Inspect(um, func(n ast.Node) bool {
		be, ok := n.(*ast.BinaryExpr)
		if ok && be.Op == token.EQL {
			if id, ok := be.Y.(*ast.Ident); ok {
				if v, ok := typeConst[id.Name]; ok {
					accepted = append(accepted, v)
				}
			}
		}
		return true
	})

	// 6b. ValidateParams: which levels a configuration may carry, per type
	//   switch *ct { case A, B: if <disjunction of p.Level == zlib.X and (p.Level >= zlib.L && p.Level <= zlib.H)> { return nil }
	//                case C: return nil }
	//   if p.Level != 0 { return error }; return nil
	zlibConst := map[string]int{"DefaultCompression": -1, "HuffmanOnly": -2, "NoCompression": 0, "BestSpeed": 1, "BestCompression": 9}
	vp := funcDecl(tf, "Type", "ValidateParams")
	type levelRule struct {
		typ     string
		singles []int
		ranges  [][2]int
	}
	var levelRules []levelRule
	var anyLevel []string
	if len(vp.Body.List) != 3 {
		die("ValidateParams no longer has 3 statements {switch; if p.Level != 0 {return err}; return nil}")
	}
	vsw, ok := vp.Body.List[0].(*ast.SwitchStmt)
	if !ok {
		die("ValidateParams: first statement is not a switch")
	}
	levelConst := func(e ast.Expr) int {
		switch x := e.(type) {
		case *ast.SelectorExpr:
			if v, ok := zlibConst[x.Sel.Name]; ok {
				return v
			}
		case *ast.BasicLit:
			if v, err := strconv.Atoi(x.Value); err == nil {
				return v
			}
		}
		die("ValidateParams: unrecognised level constant")
		return 0
	}
	isLevel := func(e ast.Expr) bool {
		se, ok := e.(*ast.SelectorExpr)
		return ok && se.Sel.Name == "Level"
	}
	var walkCond func(e ast.Expr, r *levelRule)
	walkCond = func(e ast.Expr, r *levelRule) {
		switch x := e.(type) {
		case *ast.ParenExpr:
			walkCond(x.X, r)
		case *ast.BinaryExpr:
			switch x.Op {
			case token.LOR:
				walkCond(x.X, r)
				walkCond(x.Y, r)
			case token.EQL:
				if !isLevel(x.X) {
					die("ValidateParams: comparison is not on p.Level")
				}
				r.singles = append(r.singles, levelConst(x.Y))
			case token.LAND:
				lo, ok1 := x.X.(*ast.BinaryExpr)
				hi, ok2 := x.Y.(*ast.BinaryExpr)
				if !ok1 || !ok2 || lo.Op != token.GEQ || hi.Op != token.LEQ || !isLevel(lo.X) || !isLevel(hi.X) {
					die("ValidateParams: range is not `p.Level >= A && p.Level <= B`")
				}
				r.ranges = append(r.ranges, [2]int{levelConst(lo.Y), levelConst(hi.Y)})
			default:
				die("ValidateParams: unexpected operator %s", x.Op)
			}
		default:
			die("ValidateParams: unexpected condition")
		}
	}
	for _, c := range vsw.Body.List {
		cc := c.(*ast.CaseClause)
		if cc.List == nil || len(cc.Body) != 1 {
			die("ValidateParams: unexpected clause shape")
		}
		var types []string
		for _, e := range cc.List {
			id, ok := e.(*ast.Ident)
			if !ok {
				die("ValidateParams: case label is not a Type constant")
			}
			v, ok := typeConst[id.Name]
			if !ok {
				die("ValidateParams: unknown type constant %s", id.Name)
			}
			types = append(types, v)
		}
		switch st := cc.Body[0].(type) {
		case *ast.ReturnStmt:
			if id, ok := st.Results[0].(*ast.Ident); !ok || id.Name != "nil" {
				die("ValidateParams: unconditional clause does not return nil")
			}
			anyLevel = append(anyLevel, types...)
		case *ast.IfStmt:
			if st.Else != nil || len(st.Body.List) != 1 {
				die("ValidateParams: level clause has an unexpected shape")
			}
			if rs, ok := st.Body.List[0].(*ast.ReturnStmt); !ok || len(rs.Results) != 1 {
				die("ValidateParams: level clause does not return")
			} else if id, ok := rs.Results[0].(*ast.Ident); !ok || id.Name != "nil" {
				die("ValidateParams: level clause does not return nil")
			}
			for _, ty := range types {
				r := levelRule{typ: ty}
				walkCond(st.Cond, &r)
				levelRules = append(levelRules, r)
			}
		default:
			die("ValidateParams: unexpected clause body")
		}
	}
	fb, ok := vp.Body.List[1].(*ast.IfStmt)
	if !ok {
		die("ValidateParams: second statement is not the fallback test")
	}
	fbe, ok := fb.Cond.(*ast.BinaryExpr)
	if !ok || fbe.Op != token.NEQ || !isLevel(fbe.X) {
		die("ValidateParams: fallback test is not `p.Level != <n>`")
	}
	fallbackLevel := levelConst(fbe.Y)
	// ToClient: `if hcs.CompressionParams.Level == 0 { … = configcompression.DefaultCompressionLevel }`, DefaultCompressionLevel = zlib.DefaultCompression
	unsetBecomes := 1 << 30
	for _, d := range tf.Decls {
		gd, ok := d.(*ast.GenDecl)
		if !ok || gd.Tok != token.CONST {
			continue
		}
		for _, sp := range gd.Specs {
			vs := sp.(*ast.ValueSpec)
			for i, n := range vs.Names {
				if n.Name == "DefaultCompressionLevel" && i < len(vs.Values) {
					unsetBecomes = levelConst(vs.Values[i])
				}
			}
		}
	}
	if unsetBecomes == 1<<30 {
		die("DefaultCompressionLevel not found")
	}
	hfile := parse(filepath.Join(repo, "config/confighttp/confighttp.go"))
	unsetGuard := false
	ast.Inspect(funcDecl(hfile, "ClientConfig", "ToClient"), func(n ast.Node) bool {
		is, ok := n.(*ast.IfStmt)
		if !ok {
			return true
		}
		be, ok := is.Cond.(*ast.BinaryExpr)
		if !ok || be.Op != token.EQL || !isLevel(be.X) {
			return true
		}
		if bl, ok := be.Y.(*ast.BasicLit); ok && bl.Value == "0" && mentions(is.Body, "DefaultCompressionLevel") {
			unsetGuard = true
		}
		return true
	})
	if !unsetGuard {
		die("ToClient: `if Level == 0 { Level = DefaultCompressionLevel }` not found")
	}
	// which writer constructors receive the level (newWriteCloserResetFunc)
	var passesLevel [][2]string
	for _, c := range sw.Body.List {
		cc := c.(*ast.CaseClause)
		uses := "false"
		if mentions(cc, "Level") {
			uses = "true"
		}
		for _, e := range cc.List {
			passesLevel = append(passesLevel, [2]string{typeConst[e.(*ast.SelectorExpr).Sel.Name], uses})
		}
	}

	// 7. confighttp.go: defaults and wrapper order in ToServer
	hf := parse(filepath.Join(repo, "config/confighttp/confighttp.go"))
	var defAlgos []string
	defMax := ""
	for _, d := range hf.Decls {
		gd, ok := d.(*ast.GenDecl)
		if !ok {
			continue
		}
		for _, s := range gd.Specs {
			vs, ok := s.(*ast.ValueSpec)
			if !ok {
				continue
			}
			for i, n := range vs.Names {
				if i >= len(vs.Values) {
					continue
				}
				switch n.Name {
				case "defaultCompressionAlgorithms":
					lit, ok := vs.Values[i].(*ast.CompositeLit)
					if !ok {
						die("defaultCompressionAlgorithms is not a literal")
					}
					for _, e := range lit.Elts {
						v, ok := strLit(e)
						if !ok {
							die("defaultCompressionAlgorithms: non-literal element")
						}
						defAlgos = append(defAlgos, v)
					}
				case "defaultMaxRequestBodySize":
					defMax = constProduct(vs.Values[i])
				}
			}
		}
	}
	if defAlgos == nil || defMax == "" {
		die("defaults not found in confighttp.go")
	}
	ts := funcDecl(hf, "ServerConfig", "ToServer")
	posDec, posMax, posDefMax, posDefAlg := -1, -1, -1, -1
	for i, st := range ts.Body.List {
		src := nodeCalls(st)
		if as, ok := st.(*ast.AssignStmt); ok && len(as.Lhs) == 1 {
			if id, ok := as.Lhs[0].(*ast.Ident); ok && id.Name == "handler" && src["httpContentDecompressor"] {
				posDec = i
			}
		}
		if is, ok := st.(*ast.IfStmt); ok {
			if src["maxRequestBodySizeInterceptor"] {
				// guard must be hss.MaxRequestBodySize > 0
				be, ok := is.Cond.(*ast.BinaryExpr)
				if !ok || be.Op != token.GTR {
					die("ToServer: maxRequestBodySizeInterceptor guard is not `> 0`")
				}
				posMax = i
			}
			if mentions(is.Body, "defaultMaxRequestBodySize") {
				be, ok := is.Cond.(*ast.BinaryExpr)
				if !ok || be.Op != token.LEQ {
					die("ToServer: default max body guard is not `<= 0`")
				}
				posDefMax = i
			}
			if mentions(is.Body, "defaultCompressionAlgorithms") {
				be, ok := is.Cond.(*ast.BinaryExpr)
				if !ok || be.Op != token.EQL {
					die("ToServer: default algorithms guard is not `== nil`")
				}
				posDefAlg = i
			}
		}
	}
	if posDec < 0 || posMax < 0 || posDefMax < 0 || posDefAlg < 0 {
		die("ToServer: expected statements not found (dec=%d max=%d defmax=%d defalg=%d)", posDec, posMax, posDefMax, posDefAlg)
	}
	if !(posDefMax < posDec && posDefAlg < posDec) {
		die("ToServer: defaults are applied after httpContentDecompressor is built")
	}
	outerLimit := posMax > posDec // wrapped later = runs earlier = outermost
	// … and the interceptor wraps EVERY request: its handler body is exactly
	//   r.Body = http.MaxBytesReader(w, r.Body, maxRecvSize); next.ServeHTTP(w, r)
	mi := funcDecl(hf, "", "maxRequestBodySizeInterceptor")
	unconditional := false
	ast.Inspect(mi, func(n ast.Node) bool {
		fl, ok := n.(*ast.FuncLit)
		if !ok {
			return true
		}
		if len(fl.Body.List) != 2 {
			return false
		}
		as, ok1 := fl.Body.List[0].(*ast.AssignStmt)
		es, ok2 := fl.Body.List[1].(*ast.ExprStmt)
		if !ok1 || !ok2 || len(as.Lhs) != 1 || len(as.Rhs) != 1 {
			return false
		}
		lhs, ok1 := as.Lhs[0].(*ast.SelectorExpr)
		call, ok2 := as.Rhs[0].(*ast.CallExpr)
		if !ok1 || !ok2 || lhs.Sel.Name != "Body" || len(call.Args) != 3 {
			return false
		}
		fn, ok1 := call.Fun.(*ast.SelectorExpr)
		src, ok2 := call.Args[1].(*ast.SelectorExpr)
		lim, ok3 := call.Args[2].(*ast.Ident)
		if !ok1 || !ok2 || !ok3 || fn.Sel.Name != "MaxBytesReader" || src.Sel.Name != "Body" || lim.Name != "maxRecvSize" {
			return false
		}
		if c2, ok := es.X.(*ast.CallExpr); ok {
			if f2, ok := c2.Fun.(*ast.SelectorExpr); ok && f2.Sel.Name == "ServeHTTP" {
				unconditional = true
			}
		}
		return false
	})
	outerLimit = outerLimit && unconditional

	var b strings.Builder
	b.WriteString("/- GENERATED by /verif/translators/cmd/compression from the Go sources — do not edit. -/\n")
	b.WriteString("namespace OtelVerif.Gen.Compression\n\n")
	b.WriteString("/-- `availableDecoders` (config/confighttp/compression.go): key ↦ package whose `NewReader` the entry calls;\n`none` = the entry returns `nil, nil` (identity, body left as is). Source order. -/\n")
	b.WriteString("def availableDecoders : List (String × Option String) := [\n")
	for i, d := range decs {
		sep := ","
		if i == len(decs)-1 {
			sep = ""
		}
		if d.lib == "" {
			fmt.Fprintf(&b, "  (%s, none)%s\n", leanStr(d.key), sep)
		} else {
			fmt.Fprintf(&b, "  (%s, some %s)%s\n", leanStr(d.key), leanStr(d.lib), sep)
		}
	}
	b.WriteString("]\n\n/-- enable loop of `httpContentDecompressor`: `if dec == from { enabled[from] = availableDecoders[to] }` -/\n")
	b.WriteString("def aliases : List (String × String) := [")
	for i, a := range aliases {
		if i > 0 {
			b.WriteString(", ")
		}
		fmt.Fprintf(&b, "(%s, %s)", leanStr(a[0]), leanStr(a[1]))
	}
	b.WriteString("]\n\n/-- does the enable loop store `availableDecoders[dec]` unconditionally (a nil func for an unknown name)? -/\n")
	fmt.Fprintf(&b, "def installsNilForUnknown : Bool := %v\n\n", installsNil)
	b.WriteString("/-- is the package-level `availableDecoders` only ever read (never written, deleted from, aliased or handed to other code)? -/\n")
	fmt.Fprintf(&b, "def availableDecodersOnlyRead : Bool := %v\n\n", onlyRead)
	b.WriteString("/-- status passed to `errHandler` by `decompressor.ServeHTTP` -/\n")
	fmt.Fprintf(&b, "def rejectStatus : Nat := %d\n\n", rejectStatus)
	b.WriteString("/-- `ToServer`: `maxRequestBodySizeInterceptor` wraps (runs before) `httpContentDecompressor`, and wraps the body of EVERY request unconditionally -/\n")
	fmt.Fprintf(&b, "def outerLimitOnWire : Bool := %v\n\n", outerLimit)
	b.WriteString("/-- confighttp.go defaults -/\n")
	fmt.Fprintf(&b, "def defaultCompressionAlgorithms : List String := %s\n", leanStrList(defAlgos))
	fmt.Fprintf(&b, "def defaultMaxRequestBodySize : Nat := %s\n\n", defMax)
	b.WriteString("/-- switch of `newWriteCloserResetFunc` (compressor.go): configcompression.Type value ↦ package of the writer -/\n")
	b.WriteString("def writers : List (String × String) := [")
	for i, w := range writers {
		if i > 0 {
			b.WriteString(", ")
		}
		fmt.Fprintf(&b, "(%s, %s)", leanStr(w[0]), leanStr(w[1]))
	}
	b.WriteString("]\n\n/-- configcompression.Type values accepted by `UnmarshalText` -/\n")
	fmt.Fprintf(&b, "def clientTypes : List String := %s\n\n", leanStrList(accepted))
	b.WriteString("/-- `Type.ValidateParams`: per type, the accepted single levels and inclusive ranges -/\n")
	b.WriteString("def levelRules : List (String × (List Int × List (Int × Int))) := [")
	for i, r := range levelRules {
		if i > 0 {
			b.WriteString(", ")
		}
		var sg, rg []string
		for _, v := range r.singles {
			sg = append(sg, fmt.Sprintf("(%d : Int)", v))
		}
		for _, v := range r.ranges {
			rg = append(rg, fmt.Sprintf("((%d : Int), (%d : Int))", v[0], v[1]))
		}
		fmt.Fprintf(&b, "(%s, ([%s], [%s]))", leanStr(r.typ), strings.Join(sg, ", "), strings.Join(rg, ", "))
	}
	b.WriteString("]\n/-- types for which `ValidateParams` accepts every level -/\n")
	fmt.Fprintf(&b, "def anyLevelTypes : List String := %s\n", leanStrList(anyLevel))
	b.WriteString("/-- every other (type, level) is accepted iff the level is this one -/\n")
	fmt.Fprintf(&b, "def fallbackLevel : Int := %d\n", fallbackLevel)
	b.WriteString("/-- `ToClient`: an unset level (0) is replaced by `DefaultCompressionLevel` -/\n")
	fmt.Fprintf(&b, "def unsetLevelBecomes : Int := %d\n", unsetBecomes)
	b.WriteString("/-- `newWriteCloserResetFunc`: does the writer constructor of this type receive the configured level? -/\n")
	b.WriteString("def writerPassesLevel : List (String × Bool) := [")
	for i, w := range passesLevel {
		if i > 0 {
			b.WriteString(", ")
		}
		fmt.Fprintf(&b, "(%s, %s)", leanStr(w[0]), w[1])
	}
	b.WriteString("]\n\n")
	b.WriteString("/-- `IsCompressed` is false exactly for these -/\n")
	fmt.Fprintf(&b, "def uncompressedTypes : List String := %s\n\n", leanStrList(uncompressed))
	b.WriteString(poolShape(repo))
	b.WriteString("end OtelVerif.Gen.Compression\n")
	_ = typeOrder
	fmt.Print(b.String())
}

func nodeCalls(n ast.Node) map[string]bool {
	out := map[string]bool{}
	ast.Inspect(n, func(n ast.Node) bool {
		if call, ok := n.(*ast.CallExpr); ok {
			if id, ok := call.Fun.(*ast.Ident); ok {
				out[id.Name] = true
			}
		}
		return true
	})
	return out
}

func mentions(n ast.Node, name string) bool {
	hit := false
	ast.Inspect(n, func(n ast.Node) bool {
		if id, ok := n.(*ast.Ident); ok && id.Name == name {
			hit = true
		}
		return true
	})
	return hit
}

// constProduct evaluates a product of integer literals (20 * 1024 * 1024).
func constProduct(e ast.Expr) string {
	switch x := e.(type) {
	case *ast.BasicLit:
		if x.Kind == token.INT {
			return x.Value
		}
	case *ast.BinaryExpr:
		if x.Op == token.MUL {
			a, err1 := strconv.Atoi(constProduct(x.X))
			b, err2 := strconv.Atoi(constProduct(x.Y))
			if err1 == nil && err2 == nil {
				return strconv.Itoa(a * b)
			}
		}
	case *ast.ParenExpr:
		return constProduct(x.X)
	}
	die("defaultMaxRequestBodySize is not a product of integer literals")
	return ""
}

// ---- client-side writer pools (compressor.go) ----

func exprStr(e ast.Expr) string {
	switch x := e.(type) {
	case *ast.Ident:
		return x.Name
	case *ast.SelectorExpr:
		return exprStr(x.X) + "." + x.Sel.Name
	case *ast.CallExpr:
		var as []string
		for _, a := range x.Args {
			as = append(as, exprStr(a))
		}
		return exprStr(x.Fun) + "(" + strings.Join(as, ",") + ")"
	case *ast.TypeAssertExpr:
		return exprStr(x.X) + ".(" + exprStr(x.Type) + ")"
	case *ast.BinaryExpr:
		return exprStr(x.X) + x.Op.String() + exprStr(x.Y)
	case *ast.CompositeLit:
		var as []string
		for _, a := range x.Elts {
			as = append(as, exprStr(a))
		}
		return exprStr(x.Type) + "{" + strings.Join(as, ",") + "}"
	case *ast.IndexExpr:
		return exprStr(x.X) + "[" + exprStr(x.Index) + "]"
	case *ast.ArrayType:
		return "[]" + exprStr(x.Elt)
	case *ast.UnaryExpr:
		return x.Op.String() + exprStr(x.X)
	case *ast.BasicLit:
		return x.Value
	}
	return "?"
}

// stmtToken names one statement of `compress` (and of the block guarded by `body != nil`); anything else is a shape failure
func stmtTokens(st ast.Stmt) []string {
	switch x := st.(type) {
	case *ast.AssignStmt:
		if len(x.Rhs) == 1 {
			switch exprStr(x.Rhs[0]) {
			case "p.pool.Get().(writeCloserReset)":
				if exprStr(x.Lhs[0]) == "writer" {
					return []string{"get"}
				}
			case "io.Copy(writer,body)":
				if len(x.Lhs) == 2 && exprStr(x.Lhs[1]) == "copyErr" {
					return []string{"copy"}
				}
			case "body.Close()":
				if exprStr(x.Lhs[0]) == "closeErr" {
					return []string{"closeBody"}
				}
			}
		}
	case *ast.DeferStmt:
		if exprStr(x.Call) == "p.pool.Put(writer)" {
			return []string{"deferPut"}
		}
	case *ast.ExprStmt:
		if exprStr(x.X) == "writer.Reset(buf)" {
			return []string{"reset"}
		}
	case *ast.ReturnStmt:
		if len(x.Results) == 1 {
			switch exprStr(x.Results[0]) {
			case "writer.Close()":
				return []string{"retCloseWriter"}
			case "copyErr":
				return []string{"retCopyErr"}
			case "closeErr":
				return []string{"retCloseErr"}
			}
		}
	case *ast.IfStmt:
		if x.Init == nil && x.Else == nil {
			c := exprStr(x.Cond)
			var inner []string
			for _, s := range x.Body.List {
				inner = append(inner, stmtTokens(s)...)
			}
			switch c {
			case "body!=nil":
				return append(append([]string{"ifBody["}, inner...), "]")
			case "copyErr!=nil":
				if len(inner) == 1 && inner[0] == "retCopyErr" {
					return []string{"retCopyErr"}
				}
			case "closeErr!=nil":
				if len(inner) == 1 && inner[0] == "retCloseErr" {
					return []string{"retCloseErr"}
				}
			}
		}
	}
	die("compress: statement of unknown shape")
	return nil
}

func poolShape(repo string) string {
	cf := parse(filepath.Join(repo, "config/confighttp/compressor.go"))
	var b strings.Builder
	// 1. compress
	cm := funcDecl(cf, "compressor", "compress")
	var steps []string
	for _, st := range cm.Body.List {
		steps = append(steps, stmtTokens(st)...)
	}
	// the pool is touched nowhere else in the package's non-test files
	poolUses := 0
	files, _ := filepath.Glob(filepath.Join(repo, "config/confighttp/*.go"))
	for _, fn := range files {
		if strings.HasSuffix(fn, "_test.go") {
			continue
		}
		f := parse(fn)
		ast.Inspect(f, func(n ast.Node) bool {
			if se, ok := n.(*ast.SelectorExpr); ok && se.Sel.Name == "pool" {
				poolUses++
			}
			return true
		})
	}
	// 2. the key and newCompressor
	var keyFields []string
	for _, d := range cf.Decls {
		gd, ok := d.(*ast.GenDecl)
		if !ok || gd.Tok != token.TYPE {
			continue
		}
		for _, sp := range gd.Specs {
			ts := sp.(*ast.TypeSpec)
			if st, ok := ts.Type.(*ast.StructType); ok && ts.Name.Name == "compressionMapKey" {
				for _, fl := range st.Fields.List {
					for _, n := range fl.Names {
						keyFields = append(keyFields, n.Name)
					}
				}
			}
		}
	}
	if len(keyFields) == 0 {
		die("compressionMapKey: no fields")
	}
	nc := funcDecl(cf, "", "newCompressor")
	var params []string
	for _, f := range nc.Type.Params.List {
		for _, n := range f.Names {
			params = append(params, n.Name)
		}
	}
	keyed, locked, ctorOwnKey, lookup, store, newFromCtor := false, false, false, false, false, false
	if len(nc.Body.List) >= 2 {
		if es, ok := nc.Body.List[0].(*ast.ExprStmt); ok && exprStr(es.X) == "compressorPoolsMu.Lock()" {
			if ds, ok := nc.Body.List[1].(*ast.DeferStmt); ok && exprStr(ds.Call) == "compressorPoolsMu.Unlock()" {
				locked = true
			}
		}
	}
	ast.Inspect(nc, func(n ast.Node) bool {
		switch x := n.(type) {
		case *ast.AssignStmt:
			if len(x.Lhs) >= 1 && len(x.Rhs) == 1 {
				l, r := exprStr(x.Lhs[0]), exprStr(x.Rhs[0])
				if l == "mapKey" && r == "compressionMapKey{"+strings.Join(params, ",")+"}" && len(params) == len(keyFields) {
					keyed = true
				}
				if r == "compressorPools[mapKey]" {
					lookup = true
				}
				if l == "compressorPools[mapKey]" && r == "c" {
					store = true
				}
				if l == "f" && r == "newWriteCloserResetFunc("+strings.Join(params, ",")+")" {
					ctorOwnKey = true
				}
			}
		case *ast.FuncLit:
			if len(x.Body.List) == 1 {
				if rs, ok := x.Body.List[0].(*ast.ReturnStmt); ok && len(rs.Results) == 1 && exprStr(rs.Results[0]) == "f()" {
					newFromCtor = true
				}
			}
		}
		return true
	})
	// 3. RoundTrip / newCompressRoundTripper
	cc := parse(filepath.Join(repo, "config/confighttp/compression.go"))
	rt := funcDecl(cc, "compressRoundTripper", "RoundTrip")
	freshBuf, compressCall := false, false
	ast.Inspect(rt, func(n ast.Node) bool {
		switch x := n.(type) {
		case *ast.AssignStmt:
			if len(x.Lhs) == 1 && len(x.Rhs) == 1 && exprStr(x.Lhs[0]) == "buf" && x.Tok == token.DEFINE && strings.HasPrefix(exprStr(x.Rhs[0]), "bytes.NewBuffer(") {
				freshBuf = true
			}
			if len(x.Rhs) == 1 && exprStr(x.Rhs[0]) == "r.compressor.compress(buf,req.Body)" {
				compressCall = true
			}
		}
		return true
	})
	nrt := funcDecl(cc, "", "newCompressRoundTripper")
	ownKey := false
	ast.Inspect(nrt, func(n ast.Node) bool {
		if ce, ok := n.(*ast.CallExpr); ok && exprStr(ce) == "newCompressor(compressionType,compressionParams)" {
			ownKey = true
		}
		return true
	})
	b.WriteString("\n/-- `compressor.compress` (compressor.go), statement by statement; `ifBody[ … ]` = the block guarded by `body != nil` -/\n")
	fmt.Fprintf(&b, "def compressSteps : List String := %s\n", leanStrList(steps))
	b.WriteString("/-- number of places a `.pool` selector occurs in the package's non-test files (exactly the Get and the deferred Put of `compress`) -/\n")
	fmt.Fprintf(&b, "def poolSelectorUses : Nat := %d\n", poolUses)
	b.WriteString("/-- `compressionMapKey` fields; `newCompressor`: key built from ALL its parameters, map lookup and store under that key, under `compressorPoolsMu`,\nwriter constructor made for that very (type, params), `sync.Pool.New` calls it -/\n")
	fmt.Fprintf(&b, "def poolKeyFields : List String := %s\n", leanStrList(keyFields))
	fmt.Fprintf(&b, "def poolKeyedByTypeAndParams : Bool := %v\n", keyed && lookup && store)
	fmt.Fprintf(&b, "def poolMapUnderMutex : Bool := %v\n", locked)
	fmt.Fprintf(&b, "def poolNewUsesKeyConstructor : Bool := %v\n", ctorOwnKey && newFromCtor)
	b.WriteString("/-- `RoundTrip` compresses into a buffer allocated for this request; `newCompressRoundTripper` asks for the compressor of its own (type, params) -/\n")
	fmt.Fprintf(&b, "def roundTripFreshBuffer : Bool := %v\n", freshBuf && compressCall)
	fmt.Fprintf(&b, "def roundTripperUsesOwnKey : Bool := %v\n\n", ownKey)
	return b.String()
}
