// configvalidate regenerates lean/OtelVerif/Gen/ConfigValidate.lean: a statement-by-statement TRANSLATION of
//
//	otelcol/config.go              func (cfg *Config) Validate() error
//	service/pipelines/config.go    func (cfg *PipelineConfig) Validate() error
//	service/pipelines/config.go    func (cfg Config) Validate() error      (first statement + the signal switch labels)
//
// into the small phase language of Model/C13ValidateTypes.lean (`Phase`, `PPhase`), in source order. The interpreter
// of that language (Model/C13Validate.lean) is proved equal to the hand model `rootErrs` / `pipeErr` / `shapeErrs` on the
// regenerated lists (Props/C13.lean `C13_root_phases_regenerated`, `C13_pipe_phases_regenerated`), so the reference
// theorems hold of what the source says today. Every statement must have one of the known shapes; anything else
// (a new check, a check rewritten in another form, an unknown message) is exit 2.
//
// stdlib only (go/ast, go/parser, go/token, go/printer).
package main

import (
	"bytes"
	"fmt"
	"go/ast"
	"go/parser"
	"go/printer"
	"go/token"
	"os"
	"path/filepath"
	"regexp"
	"strconv"
	"strings"
)

func die(format string, a ...any) {
	fmt.Fprintf(os.Stderr, "configvalidate: "+format+"\n", a...)
	os.Exit(2)
}

func str(n any) string {
	var b bytes.Buffer
	if err := printer.Fprint(&b, token.NewFileSet(), n); err != nil {
		die("%v", err)
	}
	return b.String()
}

type msg struct {
	kind string
	fmt  string
	args []ast.Expr
}

// the variable an argument expression starts from: `ref`, `pipelineID.String()`, `connID.String() + "/connector"`
func rootVar(e ast.Expr) string {
	switch x := e.(type) {
	case *ast.Ident:
		return x.Name
	case *ast.SelectorExpr:
		return rootVar(x.X)
	case *ast.CallExpr:
		return rootVar(x.Fun)
	case *ast.BinaryExpr:
		return rootVar(x.X)
	case *ast.ParenExpr:
		return rootVar(x.X)
	}
	return ""
}

// number of formatting verbs (`%%` is not one)
func verbs(f string) int {
	n := 0
	for i := 0; i < len(f); i++ {
		if f[i] == '%' {
			if i+1 < len(f) && f[i+1] == '%' {
				i++
				continue
			}
			n++
		}
	}
	return n
}

func (m msg) lean() string {
	qs := make([]string, len(m.args))
	for i, a := range m.args {
		qs[i] = fmt.Sprintf("(%s, %s)", leanStr(rootVar(a)), leanStr(str(a)))
	}
	return fmt.Sprintf("{ kind := .%s, fmt := %s, verbs := %d, args := [%s] }", m.kind, leanStr(m.fmt), verbs(m.fmt), strings.Join(qs, ", "))
}

func leanStr(s string) string {
	// Lean string literal: escape backslash and quote only (messages are plain ASCII)
	for _, r := range s {
		if r < 0x20 || r > 0x7e {
			die("message text with a non-printable character: %q", s)
		}
	}
	return "\"" + strings.ReplaceAll(strings.ReplaceAll(s, "\\", "\\\\"), "\"", "\\\"") + "\""
}

// message text -> error class (the class is what the Lean model calls the error; a message that moves to another
// check changes the regenerated class of that check and the equality theorem fails)
var classes = []struct{ re, kind string }{
	{`^empty configuration file$`, "emptyConfig"},
	{`^no receiver configuration specified in config$`, "noReceivers"},
	{`^no exporter configuration specified in config$`, "noExporters"},
	{`^connectors::%s: ambiguous ID: Found both %q exporter and %q connector\. `, "ambiguousExporter"},
	{`^connectors::%s: ambiguous ID: Found both %q receiver and %q connector\. `, "ambiguousReceiver"},
	{`^service::extensions: references extension %q which is not configured$`, "danglingExtension"},
	{`^service::pipelines::%s: references receiver %q which is not configured$`, "danglingReceiver"},
	{`^service::pipelines::%s: references processor %q which is not configured$`, "danglingProcessor"},
	{`^service::pipelines::%s: references exporter %q which is not configured$`, "danglingExporter"},
	{`^service must have at least one pipeline$`, "noPipelines"},
	{`^must have at least one receiver$`, "pipeNoReceivers"},
	{`^must have at least one exporter$`, "pipeNoExporters"},
	{`^references processor %q multiple times$`, "dupProcessor"},
}

func classify(text string) string {
	for _, c := range classes {
		if regexp.MustCompile(c.re).MatchString(text) {
			return c.kind
		}
	}
	die("unknown error message %q", text)
	return ""
}

type file struct {
	f    *ast.File
	errs map[string]string // package-level `x = errors.New("...")`
}

func load(path string) *file {
	fset := token.NewFileSet()
	f, err := parser.ParseFile(fset, path, nil, 0)
	if err != nil {
		die("%v", err)
	}
	r := &file{f: f, errs: map[string]string{}}
	for _, d := range f.Decls {
		gd, ok := d.(*ast.GenDecl)
		if !ok || gd.Tok != token.VAR {
			continue
		}
		for _, s := range gd.Specs {
			vs := s.(*ast.ValueSpec)
			for i, n := range vs.Names {
				if i >= len(vs.Values) {
					continue
				}
				if c, ok := vs.Values[i].(*ast.CallExpr); ok && str(c.Fun) == "errors.New" && len(c.Args) == 1 {
					if l, ok := c.Args[0].(*ast.BasicLit); ok && l.Kind == token.STRING {
						t, err := strconv.Unquote(l.Value)
						if err != nil {
							die("%v", err)
						}
						r.errs[n.Name] = t
					}
				}
			}
		}
	}
	return r
}

func (f *file) method(recv, name string) *ast.FuncDecl {
	for _, d := range f.f.Decls {
		fd, ok := d.(*ast.FuncDecl)
		if !ok || fd.Name.Name != name || fd.Recv == nil || len(fd.Recv.List) != 1 {
			continue
		}
		rt := fd.Recv.List[0].Type
		if st, ok := rt.(*ast.StarExpr); ok {
			rt = st.X
		}
		if id, ok := rt.(*ast.Ident); ok && id.Name == recv {
			return fd
		}
	}
	die("method %s.%s not found", recv, name)
	return nil
}

// string constant expression: literals joined by +
func constString(e ast.Expr) (string, bool) {
	switch x := e.(type) {
	case *ast.BasicLit:
		if x.Kind != token.STRING {
			return "", false
		}
		s, err := strconv.Unquote(x.Value)
		return s, err == nil
	case *ast.BinaryExpr:
		if x.Op != token.ADD {
			return "", false
		}
		a, ok1 := constString(x.X)
		b, ok2 := constString(x.Y)
		return a + b, ok1 && ok2
	case *ast.ParenExpr:
		return constString(x.X)
	}
	return "", false
}

// `return <errIdent>` or `return fmt.Errorf("...", args...)`
func (f *file) retMsg(s ast.Stmt) msg {
	r, ok := s.(*ast.ReturnStmt)
	if !ok || len(r.Results) != 1 {
		die("expected `return <error>`, got %s", str(s))
	}
	switch x := r.Results[0].(type) {
	case *ast.Ident:
		t, ok := f.errs[x.Name]
		if !ok {
			die("returned identifier %s is not a package-level errors.New", x.Name)
		}
		return msg{kind: classify(t), fmt: t}
	case *ast.CallExpr:
		if str(x.Fun) != "fmt.Errorf" || len(x.Args) < 1 {
			die("expected fmt.Errorf, got %s", str(x))
		}
		t, ok := constString(x.Args[0])
		if !ok {
			die("fmt.Errorf format is not a constant string: %s", str(x.Args[0]))
		}
		m := msg{kind: classify(t), fmt: t}
		m.args = append(m.args, x.Args[1:]...)
		return m
	}
	die("unknown return expression %s", str(r.Results[0]))
	return msg{}
}

func onlyStmt(b *ast.BlockStmt) ast.Stmt {
	if len(b.List) != 1 {
		die("expected a one-statement block, got %s", str(b))
	}
	return b.List[0]
}

func conj(e ast.Expr) []ast.Expr {
	if b, ok := e.(*ast.BinaryExpr); ok && b.Op == token.LAND {
		return append(conj(b.X), conj(b.Y)...)
	}
	if p, ok := e.(*ast.ParenExpr); ok {
		return conj(p.X)
	}
	return []ast.Expr{e}
}

var (
	reLenSec  = regexp.MustCompile(`^len\(cfg\.(Receivers|Exporters|Processors|Connectors|Extensions)\) == 0$`)
	reGate    = regexp.MustCompile(`^!((?:pipelines\.)?AllowNoPipelines)\.IsEnabled\(\)$`)
	reLenSelf = regexp.MustCompile(`^len\(cfg\) == 0$`)
	reLookup  = regexp.MustCompile(`^cfg\.(Receivers|Exporters|Processors|Connectors|Extensions)\[(\w+)\]$`)
	reNilCmp  = regexp.MustCompile(`^cfg\.(Receivers|Exporters|Processors|Connectors|Extensions)\[(\w+)\] == nil$`)
	rePList   = regexp.MustCompile(`^(\w+)\.(Receivers|Processors|Exporters)$`)
)

func sec(s string) string { return "." + strings.ToLower(s) }

func plist(s string) string {
	switch s {
	case "Receivers":
		return ".recv"
	case "Processors":
		return ".procs"
	case "Exporters":
		return ".exps"
	}
	die("unknown pipeline list %s", s)
	return ""
}

// `if _, ok := cfg.S[v]; ok { <body> }` -> (S, body)
func commaOk(s ast.Stmt, v string) (string, *ast.BlockStmt, bool) {
	is, ok := s.(*ast.IfStmt)
	if !ok || is.Init == nil || is.Else != nil {
		return "", nil, false
	}
	as, ok := is.Init.(*ast.AssignStmt)
	if !ok || as.Tok != token.DEFINE || len(as.Lhs) != 2 || len(as.Rhs) != 1 || str(as.Lhs[0]) != "_" {
		return "", nil, false
	}
	if str(is.Cond) != str(as.Lhs[1]) {
		return "", nil, false
	}
	m := reLookup.FindStringSubmatch(str(as.Rhs[0]))
	if m == nil || m[2] != v {
		return "", nil, false
	}
	return m[1], is.Body, true
}

// body of a loop over references `for _, ref := range …`: accepted-if tests, then the error
func (f *file) refLoopBody(b *ast.BlockStmt, ref string) (accept []string, m msg) {
	for i, s := range b.List {
		last := i == len(b.List)-1
		if S, body, ok := commaOk(s, ref); ok {
			if br, ok := onlyStmt(body).(*ast.BranchStmt); ok && br.Tok == token.CONTINUE && br.Label == nil {
				if last {
					die("reference loop ends with an accept test and no error: %s", str(b))
				}
				accept = append(accept, "Look.present "+sec(S))
				continue
			}
			die("unknown statement in a reference loop: %s", str(s))
		}
		if is, ok := s.(*ast.IfStmt); ok && is.Init == nil && is.Else == nil {
			if mm := reNilCmp.FindStringSubmatch(str(is.Cond)); mm != nil && mm[2] == ref && last {
				if mm[1] != "Processors" && mm[1] != "Extensions" {
					die("nil test on section %s (the model has no nil flag there): %s", mm[1], str(s))
				}
				accept = append(accept, "Look.nonNil "+sec(mm[1]))
				return accept, f.retMsg(onlyStmt(is.Body))
			}
		}
		if _, ok := s.(*ast.ReturnStmt); ok && last {
			return accept, f.retMsg(s)
		}
		die("unknown statement in a reference loop: %s", str(s))
	}
	die("reference loop without an error: %s", str(b))
	return nil, msg{}
}

func rangeVars(r *ast.RangeStmt) (key, val string) {
	if r.Tok != token.DEFINE {
		die("range without := : %s", str(r))
	}
	if r.Key != nil {
		key = str(r.Key)
	}
	if r.Value != nil {
		val = str(r.Value)
	}
	return
}

func (f *file) rootPhases(fd *ast.FuncDecl) []string {
	var out []string
	list := fd.Body.List
	if len(list) == 0 || str(list[len(list)-1]) != "return nil" {
		die("Config.Validate does not end with `return nil`")
	}
	for _, s := range list[:len(list)-1] {
		switch x := s.(type) {
		case *ast.IfStmt:
			if x.Init != nil || x.Else != nil {
				die("unknown if form: %s", str(x))
			}
			m := f.retMsg(onlyStmt(x.Body))
			var secs []string
			var gates []string
			for _, t := range conj(x.Cond) {
				ts := str(t)
				if mm := reLenSec.FindStringSubmatch(ts); mm != nil {
					secs = append(secs, sec(mm[1]))
				} else if mm := reGate.FindStringSubmatch(ts); mm != nil {
					gates = append(gates, mm[1])
				} else {
					die("unknown condition term %q in %s", ts, str(x.Cond))
				}
			}
			switch {
			case len(gates) == 0 && len(secs) >= 1:
				out = append(out, fmt.Sprintf(".allEmpty [%s] %s", strings.Join(secs, ", "), m.lean()))
			case len(gates) == 1 && len(secs) == 1:
				out = append(out, fmt.Sprintf(".gatedEmpty %q %s %s", gates[0], secs[0], m.lean()))
			default:
				die("unknown condition %s", str(x.Cond))
			}
		case *ast.RangeStmt:
			key, val := rangeVars(x)
			over := str(x.X)
			switch {
			case over == "cfg.Connectors" && key != "" && key != "_" && val == "":
				var ag []string
				for _, t := range x.Body.List {
					S, body, ok := commaOk(t, key)
					if !ok {
						die("unknown statement in the connector loop: %s", str(t))
					}
					ag = append(ag, fmt.Sprintf("(%s, %s)", sec(S), f.retMsg(onlyStmt(body)).lean()))
				}
				out = append(out, fmt.Sprintf(".clash .connectors %q [\n      %s]", key, strings.Join(ag, ",\n      ")))
			case over == "cfg.Service.Extensions" && key == "_" && val != "" && val != "_":
				acc, m := f.refLoopBody(x.Body, val)
				out = append(out, fmt.Sprintf(".svcRefs %q [%s] %s", val, strings.Join(acc, ", "), m.lean()))
			case over == "cfg.Service.Pipelines" && key != "" && key != "_" && val != "" && val != "_":
				var loops []string
				for _, t := range x.Body.List {
					r, ok := t.(*ast.RangeStmt)
					if !ok {
						die("unknown statement in the pipelines loop: %s", str(t))
					}
					k2, v2 := rangeVars(r)
					mm := rePList.FindStringSubmatch(str(r.X))
					if mm == nil || mm[1] != val || k2 != "_" || v2 == "" || v2 == "_" {
						die("unknown inner loop: %s", str(r))
					}
					acc, m := f.refLoopBody(r.Body, v2)
					loops = append(loops, fmt.Sprintf("{ list := %s, refVar := %q, accept := [%s],\n        msg := %s }", plist(mm[2]), v2, strings.Join(acc, ", "), m.lean()))
				}
				out = append(out, fmt.Sprintf(".pipelines %q [\n      %s]", key, strings.Join(loops, ",\n      ")))
			default:
				die("unknown loop: for %s, %s := range %s", key, val, over)
			}
		default:
			die("unknown statement in Config.Validate: %s", str(s))
		}
	}
	return out
}

func (f *file) pipePhases(fd *ast.FuncDecl) []string {
	var out []string
	list := fd.Body.List
	if len(list) == 0 || str(list[len(list)-1]) != "return nil" {
		die("PipelineConfig.Validate does not end with `return nil`")
	}
	setVar, setOver := "", ""
	reLenList := regexp.MustCompile(`^len\(cfg\.(Receivers|Processors|Exporters)\) == 0$`)
	reMake := regexp.MustCompile(`^make\(map\[component\.ID\]struct\{\}, len\(cfg\.(Receivers|Processors|Exporters)\)\)$`)
	for _, s := range list[:len(list)-1] {
		switch x := s.(type) {
		case *ast.IfStmt:
			mm := reLenList.FindStringSubmatch(str(x.Cond))
			if x.Init != nil || x.Else != nil || mm == nil {
				die("unknown if form: %s", str(x))
			}
			out = append(out, fmt.Sprintf(".emptyList %s %s", plist(mm[1]), f.retMsg(onlyStmt(x.Body)).lean()))
		case *ast.AssignStmt:
			if x.Tok != token.DEFINE || len(x.Lhs) != 1 || len(x.Rhs) != 1 {
				die("unknown assignment: %s", str(x))
			}
			mm := reMake.FindStringSubmatch(str(x.Rhs[0]))
			if mm == nil {
				die("unknown assignment: %s", str(x))
			}
			setVar, setOver = str(x.Lhs[0]), mm[1]
		case *ast.RangeStmt:
			key, val := rangeVars(x)
			mm := regexp.MustCompile(`^cfg\.(Receivers|Processors|Exporters)$`).FindStringSubmatch(str(x.X))
			if mm == nil || key != "_" || val == "" || val == "_" || setVar == "" || mm[1] != setOver || len(x.Body.List) != 2 {
				die("unknown loop: %s", str(x))
			}
			// if _, exists := set[ref]; exists { return … }  ;  set[ref] = struct{}{}
			is, ok := x.Body.List[0].(*ast.IfStmt)
			if !ok || is.Init == nil || is.Else != nil {
				die("unknown duplicate test: %s", str(x.Body.List[0]))
			}
			as, ok := is.Init.(*ast.AssignStmt)
			if !ok || len(as.Lhs) != 2 || str(as.Lhs[0]) != "_" || str(is.Cond) != str(as.Lhs[1]) || str(as.Rhs[0]) != setVar+"["+val+"]" {
				die("unknown duplicate test: %s", str(is))
			}
			if str(x.Body.List[1]) != setVar+"["+val+"] = struct{}{}" {
				die("unknown set insertion: %s", str(x.Body.List[1]))
			}
			out = append(out, fmt.Sprintf(".noDup %s %q %s", plist(mm[1]), val, f.retMsg(onlyStmt(is.Body)).lean()))
			setVar = ""
		default:
			die("unknown statement in PipelineConfig.Validate: %s", str(s))
		}
	}
	return out
}

// pipelines.Config.Validate: `if !AllowNoPipelines.IsEnabled() && len(cfg) == 0 { return err }`, then one loop with the
// signal switch (its case labels are emitted as data), then `return nil`
func (f *file) svcPipelines(fd *ast.FuncDecl) (first string, labels []string) {
	list := fd.Body.List
	if len(list) != 3 || str(list[2]) != "return nil" {
		die("pipelines.Config.Validate: expected 3 statements, got %d", len(list))
	}
	is, ok := list[0].(*ast.IfStmt)
	if !ok || is.Init != nil || is.Else != nil {
		die("pipelines.Config.Validate: unknown first statement %s", str(list[0]))
	}
	ts := conj(is.Cond)
	if len(ts) != 2 || reGate.FindStringSubmatch(str(ts[0])) == nil || !reLenSelf.MatchString(str(ts[1])) {
		die("pipelines.Config.Validate: unknown condition %s", str(is.Cond))
	}
	first = fmt.Sprintf("(%q, %s)", reGate.FindStringSubmatch(str(ts[0]))[1], f.retMsg(onlyStmt(is.Body)).lean())
	r, ok := list[1].(*ast.RangeStmt)
	if !ok || str(r.X) != "cfg" || len(r.Body.List) != 1 {
		die("pipelines.Config.Validate: unknown loop %s", str(list[1]))
	}
	sw, ok := r.Body.List[0].(*ast.SwitchStmt)
	if !ok {
		die("pipelines.Config.Validate: expected a switch, got %s", str(r.Body.List[0]))
	}
	for _, c := range sw.Body.List {
		cc := c.(*ast.CaseClause)
		var ls []string
		for _, e := range cc.List {
			ls = append(ls, str(e))
		}
		l := strings.Join(ls, ",")
		if cc.List == nil {
			l = "default"
		}
		rets := 0
		ast.Inspect(cc, func(n ast.Node) bool {
			if _, ok := n.(*ast.ReturnStmt); ok {
				rets++
			}
			return true
		})
		labels = append(labels, fmt.Sprintf("(%q, %d)", l, rets))
	}
	return
}

func main() {
	repo := os.Args[1]
	root := load(filepath.Join(repo, "otelcol/config.go"))
	pl := load(filepath.Join(repo, "service/pipelines/config.go"))
	fmt.Printf("/- GENERATED by /verif/translators/cmd/configvalidate — do not edit. -/\nimport OtelVerif.Model.C13ValidateTypes\nnamespace OtelVerif.Gen.ConfigValidate\nopen OtelVerif.C13\n\n")
	fmt.Printf("/-- otelcol/config.go `Config.Validate`, statement by statement -/\ndef rootPhases : List Phase := [\n  %s\n]\n\n",
		strings.Join(root.rootPhases(root.method("Config", "Validate")), ",\n  "))
	fmt.Printf("/-- service/pipelines/config.go `PipelineConfig.Validate`, statement by statement -/\ndef pipePhases : List PPhase := [\n  %s\n]\n\n",
		strings.Join(pl.pipePhases(pl.method("PipelineConfig", "Validate")), ",\n  "))
	first, labels := pl.svcPipelines(pl.method("Config", "Validate"))
	fmt.Printf("/-- service/pipelines/config.go `Config.Validate`: (gate, error) of the `len(cfg) == 0` test -/\ndef noPipelines : String × Msg := %s\n\n", first)
	fmt.Printf("/-- … and its signal switch: (case labels, number of return statements in the clause) -/\ndef signalSwitch : List (String × Nat) := [%s]\n\n", strings.Join(labels, ", "))
	// every place in package otelcol (non-test files) where a configuration is validated: `xconfmap.Validate(x)` (the walk: every
	// nested Validate) or a direct `x.Validate()` method call (the top-level method only)
	ents, err := os.ReadDir(filepath.Join(repo, "otelcol"))
	if err != nil {
		die("%v", err)
	}
	var calls []string
	for _, e := range ents {
		n := e.Name()
		if e.IsDir() || !strings.HasSuffix(n, ".go") || strings.HasSuffix(n, "_test.go") {
			continue
		}
		f, err := parser.ParseFile(token.NewFileSet(), filepath.Join(repo, "otelcol", n), nil, 0)
		if err != nil {
			die("%v", err)
		}
		for _, d := range f.Decls {
			fd, ok := d.(*ast.FuncDecl)
			if !ok || fd.Body == nil {
				continue
			}
			fname := fd.Name.Name
			if fd.Recv != nil && len(fd.Recv.List) == 1 {
				fname = strings.TrimPrefix(str(fd.Recv.List[0].Type), "*") + "." + fname
			}
			ast.Inspect(fd.Body, func(nd ast.Node) bool {
				c, ok := nd.(*ast.CallExpr)
				if !ok {
					return true
				}
				sel, ok := c.Fun.(*ast.SelectorExpr)
				if !ok || sel.Sel.Name != "Validate" {
					return true
				}
				if str(c.Fun) == "xconfmap.Validate" || len(c.Args) == 0 {
					calls = append(calls, fmt.Sprintf("(%q, %q, %q)", "otelcol/"+n, fname, str(c)))
				}
				return true
			})
		}
	}
	fmt.Printf("/-- every validation of a configuration in package otelcol: (file, function, call) -/\ndef validationCalls : List (String × String × String) := [\n  %s\n]\n\n", strings.Join(calls, ",\n  "))
	fmt.Printf("end OtelVerif.Gen.ConfigValidate\n")
}
