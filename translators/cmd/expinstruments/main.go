// expinstruments regenerates lean/OtelVerif/Gen/ExpInstruments.lean from
//
//	exporter/exporterhelper/internal/obs_report_sender.go   newObsReportSender (per-signal switch: which instruments count sent /
//	                                                        send-failed items), Send (items read BEFORE the send), endOp, toNumItems
//	exporter/exporterhelper/internal/queuebatch/obs_queue.go newObsQueue (per-signal switch: enqueue-failed instrument; the two
//	                                                        gauge callbacks and what they observe), Offer
//
// Only data is emitted.  Signals are Nat codes 0 = traces, 1 = metrics, 2 = logs, 3 = profiles (any other pipeline.Signal / xpipeline
// selector: exit 2).  Exit 2 when the source no longer has the expected shape.
package main

import (
	"fmt"
	"go/ast"
	"go/parser"
	"go/token"
	"os"
	"path/filepath"
	"strings"
)

func die(format string, a ...any) {
	fmt.Fprintf(os.Stderr, "expinstruments: "+format+"\n", a...)
	os.Exit(2)
}

func parse(path string) *ast.File {
	f, err := parser.ParseFile(token.NewFileSet(), path, nil, 0)
	if err != nil {
		die("%v", err)
	}
	return f
}

var sigCode = map[string]int{"SignalTraces": 0, "SignalMetrics": 1, "SignalLogs": 2, "SignalProfiles": 3}

func findFunc(f *ast.File, name string) *ast.FuncDecl {
	for _, d := range f.Decls {
		if fd, ok := d.(*ast.FuncDecl); ok && fd.Name.Name == name && fd.Body != nil {
			return fd
		}
	}
	die("func %s not found", name)
	return nil
}

func expr(e ast.Expr) string {
	switch x := e.(type) {
	case *ast.Ident:
		return x.Name
	case *ast.BasicLit:
		return strings.ReplaceAll(strings.ReplaceAll(x.Value, "\"", "'"), "`", "'")
	case *ast.SelectorExpr:
		return expr(x.X) + "." + x.Sel.Name
	case *ast.CallExpr:
		args := make([]string, len(x.Args))
		for i, a := range x.Args {
			args[i] = expr(a)
		}
		return expr(x.Fun) + "(" + strings.Join(args, ",") + ")"
	case *ast.BinaryExpr:
		return expr(x.X) + x.Op.String() + expr(x.Y)
	case *ast.UnaryExpr:
		return x.Op.String() + expr(x.X)
	case *ast.ParenExpr:
		return "(" + expr(x.X) + ")"
	case *ast.FuncLit:
		return "func"
	case *ast.IndexExpr:
		return expr(x.X)
	case *ast.Ellipsis:
		return "..."
	}
	die("unknown expression form %T", e)
	return ""
}

// rows of `switch <tag> { case pipeline.SignalX: <recv>.<field> = <tb>.<Instrument> ... }`
func switchRows(fd *ast.FuncDecl, fields []string) [][]string {
	var sw *ast.SwitchStmt
	ast.Inspect(fd.Body, func(n ast.Node) bool {
		if s, ok := n.(*ast.SwitchStmt); ok {
			if sw != nil {
				die("%s: more than one switch", fd.Name.Name)
			}
			sw = s
		}
		return true
	})
	if sw == nil {
		die("%s: signal switch not found", fd.Name.Name)
	}
	if !strings.HasSuffix(expr(sw.Tag), "ignal") {
		die("%s: switch tag %s is not the signal", fd.Name.Name, expr(sw.Tag))
	}
	var rows [][]string
	for _, st := range sw.Body.List {
		cc := st.(*ast.CaseClause)
		if cc.List == nil {
			die("%s: the signal switch has a default case", fd.Name.Name)
		}
		if len(cc.List) != 1 {
			die("%s: case with %d expressions", fd.Name.Name, len(cc.List))
		}
		se, ok := cc.List[0].(*ast.SelectorExpr)
		if !ok {
			die("%s: case expression %s", fd.Name.Name, expr(cc.List[0]))
		}
		code, ok := sigCode[se.Sel.Name]
		if !ok {
			die("%s: unknown signal %s", fd.Name.Name, se.Sel.Name)
		}
		got := map[string]string{}
		for _, b := range cc.Body {
			as, ok := b.(*ast.AssignStmt)
			if !ok || len(as.Lhs) != 1 || len(as.Rhs) != 1 {
				die("%s: case %s: statement is not a single assignment", fd.Name.Name, se.Sel.Name)
			}
			l, ok1 := as.Lhs[0].(*ast.SelectorExpr)
			r, ok2 := as.Rhs[0].(*ast.SelectorExpr)
			if !ok1 || !ok2 {
				die("%s: case %s: assignment shape", fd.Name.Name, se.Sel.Name)
			}
			got[l.Sel.Name] = r.Sel.Name
		}
		row := []string{fmt.Sprint(code)}
		for _, f := range fields {
			v, ok := got[f]
			if !ok || len(got) != len(fields) {
				die("%s: case %s assigns %v, expected exactly %v", fd.Name.Name, se.Sel.Name, got, fields)
			}
			row = append(row, v)
		}
		rows = append(rows, row)
	}
	return rows
}

// calls, ifs and returns of a body in source order (return after its operands)
func skeleton(n ast.Node) []string {
	var out []string
	ast.Inspect(n, func(n ast.Node) bool {
		switch x := n.(type) {
		case *ast.ReturnStmt:
			rs := make([]string, len(x.Results))
			for i, r := range x.Results {
				out = append(out, skeleton(r)...)
				rs[i] = expr(r)
			}
			out = append(out, "return:"+strings.Join(rs, ";"))
			return false
		case *ast.IfStmt:
			out = append(out, "if:"+expr(x.Cond))
		case *ast.DeferStmt:
			out = append(out, "defer")
		case *ast.CallExpr:
			out = append(out, "call:"+expr(x))
			return true
		case *ast.AssignStmt:
			ls := make([]string, len(x.Lhs))
			for i, l := range x.Lhs {
				ls[i] = expr(l)
			}
			out = append(out, "assign:"+strings.Join(ls, ","))
		}
		return true
	})
	return out
}

func lit(ss []string) string {
	q := make([]string, len(ss))
	for i, s := range ss {
		if strings.ContainsAny(s, "\"\\\n") {
			die("token %q cannot be emitted", s)
		}
		q[i] = "\"" + s + "\""
	}
	return "[" + strings.Join(q, ", ") + "]"
}

func main() {
	if len(os.Args) < 2 {
		die("usage: expinstruments <repo>")
	}
	base := filepath.Join(os.Args[1], "exporter/exporterhelper/internal")
	sf := parse(filepath.Join(base, "obs_report_sender.go"))
	qf := parse(filepath.Join(base, "queuebatch/obs_queue.go"))

	sender := switchRows(findFunc(sf, "newObsReportSender"), []string{"itemsSentInst", "itemsFailedInst"})
	queue := switchRows(findFunc(qf, "newObsQueue"), []string{"enqueueFailedInst"})

	// gauge callbacks: Register<X>Callback(func(...){ o.Observe(<what>, attrs) })
	var cbs []string
	ast.Inspect(findFunc(qf, "newObsQueue").Body, func(n ast.Node) bool {
		c, ok := n.(*ast.CallExpr)
		if !ok {
			return true
		}
		se, ok := c.Fun.(*ast.SelectorExpr)
		if !ok || !strings.HasPrefix(se.Sel.Name, "Register") || !strings.HasSuffix(se.Sel.Name, "Callback") {
			return true
		}
		if len(c.Args) != 1 {
			die("%s: %d arguments", se.Sel.Name, len(c.Args))
		}
		fl, ok := c.Args[0].(*ast.FuncLit)
		if !ok {
			die("%s: argument is not a function literal", se.Sel.Name)
		}
		var obs []string
		ast.Inspect(fl.Body, func(n ast.Node) bool {
			if oc, ok := n.(*ast.CallExpr); ok {
				if s2, ok := oc.Fun.(*ast.SelectorExpr); ok && s2.Sel.Name == "Observe" {
					if len(oc.Args) < 1 {
						die("%s: Observe without value", se.Sel.Name)
					}
					obs = append(obs, expr(oc.Args[0]))
				}
			}
			return true
		})
		if len(obs) != 1 {
			die("%s: expected exactly one Observe call, found %v", se.Sel.Name, obs)
		}
		cbs = append(cbs, se.Sel.Name+"="+obs[0])
		return true
	})

	fmt.Println("/- GENERATED by /verif/translators/cmd/expinstruments from exporter/exporterhelper/internal/obs_report_sender.go and")
	fmt.Println("   queuebatch/obs_queue.go — do not edit.  Signal codes: 0 = traces, 1 = metrics, 2 = logs, 3 = profiles. -/")
	fmt.Println("namespace OtelVerif.Gen.ExpInstruments")
	fmt.Println("\n/-- `newObsReportSender`: rows of the signal switch in source order: (signal, instrument assigned to `itemsSentInst`, to `itemsFailedInst`) -/")
	fmt.Print("def senderTable : List (Nat × String × String) := [")
	for i, r := range sender {
		if i > 0 {
			fmt.Print(", ")
		}
		fmt.Printf("(%s, \"%s\", \"%s\")", r[0], r[1], r[2])
	}
	fmt.Println("]")
	fmt.Println("\n/-- `newObsQueue`: rows of the signal switch: (signal, instrument assigned to `enqueueFailedInst`) -/")
	fmt.Print("def queueTable : List (Nat × String) := [")
	for i, r := range queue {
		if i > 0 {
			fmt.Print(", ")
		}
		fmt.Printf("(%s, \"%s\")", r[0], r[1])
	}
	fmt.Println("]")
	fmt.Printf("\n/-- `newObsQueue`: what each registered gauge callback observes -/\ndef gaugeCallbacks : List String :=\n  %s\n", lit(cbs))
	fmt.Printf("\n/-- `obsReportSender.Send`: skeleton -/\ndef sendSkeleton : List String :=\n  %s\n", lit(skeleton(findFunc(sf, "Send").Body)))
	fmt.Printf("\n/-- `obsReportSender.endOp`: skeleton up to the span handling -/\ndef endOpSkeleton : List String :=\n  %s\n", lit(skeleton(findFunc(sf, "endOp").Body)))
	fmt.Printf("\n/-- `toNumItems` -/\ndef toNumItemsSkeleton : List String :=\n  %s\n", lit(skeleton(findFunc(sf, "toNumItems").Body)))
	var offer *ast.FuncDecl
	for _, d := range qf.Decls {
		if fd, ok := d.(*ast.FuncDecl); ok && fd.Name.Name == "Offer" && fd.Recv != nil {
			offer = fd
		}
	}
	if offer == nil {
		die("obsQueue.Offer not found")
	}
	fmt.Printf("\n/-- `obsQueue.Offer`: skeleton -/\ndef offerSkeleton : List String :=\n  %s\n", lit(skeleton(offer.Body)))
	fmt.Println("\nend OtelVerif.Gen.ExpInstruments")
}
