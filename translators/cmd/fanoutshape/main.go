// fanoutshape regenerates lean/OtelVerif/Gen/FanoutShape.lean from
//
//	internal/fanoutconsumer/{logs,metrics,traces,profiles}.go   New*, (*xConsumer).Capabilities, (*xConsumer).Consume*, clone*
//	service/internal/graph/connector.go                         aggregateCap, build{Traces,Metrics,Logs,Profiles} (same-signal arm)
//	service/internal/graph/graph.go                             buildComponents, case *capabilitiesNode
//	service/internal/capabilityconsumer/capabilities.go         New{Logs,Metrics,Traces,Profiles} + wrapper Capabilities()
//
// The fan-out functions are TRANSLATED statement by statement (recursive walk over go/ast) into the small language of
// lean/OtelVerif/Model/C06Src.lean (BExp / Stmt / Part / Fan); Props/C06.lean proves that the interpretation of every generated
// program equals the hand-written fan-out model for all capability vectors.  The graph glue is emitted as capability
// expressions (CapExp) and per-signal call-site facts.  Anything whose shape is not recognised: message on stderr, exit 2.
package main

import (
	"fmt"
	"go/ast"
	"go/parser"
	"go/token"
	"os"
	"path/filepath"
	"strings"
)

func die(format string, a ...any) {
	fmt.Fprintf(os.Stderr, "fanoutshape: "+format+"\n", a...)
	os.Exit(2)
}

var fset = token.NewFileSet()

func pos(n ast.Node) string { return fset.Position(n.Pos()).String() }

func parse(path string) *ast.File {
	f, err := parser.ParseFile(fset, path, nil, 0)
	if err != nil {
		die("%v", err)
	}
	return f
}

func findFunc(f *ast.File, name string, recvType string) *ast.FuncDecl {
	for _, d := range f.Decls {
		fd, ok := d.(*ast.FuncDecl)
		if !ok || fd.Name.Name != name {
			continue
		}
		if recvType == "" {
			if fd.Recv == nil {
				return fd
			}
			continue
		}
		if fd.Recv == nil || len(fd.Recv.List) != 1 {
			continue
		}
		t := fd.Recv.List[0].Type
		if st, ok := t.(*ast.StarExpr); ok {
			t = st.X
		}
		if id, ok := t.(*ast.Ident); ok && id.Name == recvType {
			return fd
		}
	}
	return nil
}

func ident(e ast.Expr) string {
	if id, ok := e.(*ast.Ident); ok {
		return id.Name
	}
	return ""
}

// sel(e) = ("x","f") for x.f
func sel(e ast.Expr) (string, string) {
	s, ok := e.(*ast.SelectorExpr)
	if !ok {
		return "", ""
	}
	return ident(s.X), s.Sel.Name
}

func intLit(e ast.Expr) (int, bool) {
	b, ok := e.(*ast.BasicLit)
	if !ok || b.Kind != token.INT {
		return 0, false
	}
	n := 0
	_, err := fmt.Sscanf(b.Value, "%d", &n)
	return n, err == nil
}

// ---------------------------------------------------------------- fan-out files

type fanCtx struct {
	sig     string // Logs / Metrics / Traces / Profiles
	recv    string // receiver variable of the method being translated (lsc)
	payload string // payload parameter (ld)
	last    map[string]string // variable -> slice (mutable/readonly) it is the LAST element of
}

func lstName(s string, at ast.Node) string {
	switch s {
	case "mutable":
		return ".mutable"
	case "readonly":
		return ".readonly"
	}
	die("%s: unknown consumer slice %q", pos(at), s)
	return ""
}

// len(<recv>.<slice>)
func (c *fanCtx) lenOf(e ast.Expr) (string, bool) {
	call, ok := e.(*ast.CallExpr)
	if !ok || ident(call.Fun) != "len" || len(call.Args) != 1 {
		return "", false
	}
	x, f := sel(call.Args[0])
	if x != c.recv || x == "" {
		return "", false
	}
	return lstName(f, e), true
}

func (c *fanCtx) cond(e ast.Expr) string {
	switch v := e.(type) {
	case *ast.ParenExpr:
		return c.cond(v.X)
	case *ast.BinaryExpr:
		switch v.Op {
		case token.LAND:
			return fmt.Sprintf("(.and %s %s)", c.cond(v.X), c.cond(v.Y))
		case token.GTR, token.EQL:
			l, ok := c.lenOf(v.X)
			n, ok2 := intLit(v.Y)
			if !ok || !ok2 {
				die("%s: unsupported comparison", pos(e))
			}
			if v.Op == token.GTR {
				return fmt.Sprintf("(.lenGt %s %d)", l, n)
			}
			return fmt.Sprintf("(.lenEq %s %d)", l, n)
		}
	case *ast.UnaryExpr:
		if v.Op == token.NOT {
			return fmt.Sprintf("(.not %s)", c.cond(v.X))
		}
	case *ast.CallExpr:
		x, f := sel(v.Fun)
		if x == c.payload && f == "IsReadOnly" && len(v.Args) == 0 {
			return ".inputRO"
		}
	}
	die("%s: unsupported condition", pos(e))
	return ""
}

// the payload argument of a Consume call: ld | cloneX(ld)
func (c *fanCtx) arg(e ast.Expr) string {
	if ident(e) == c.payload {
		return ".orig"
	}
	if call, ok := e.(*ast.CallExpr); ok && ident(call.Fun) == "clone"+c.sig && len(call.Args) == 1 && ident(call.Args[0]) == c.payload {
		return ".clone"
	}
	die("%s: unsupported payload argument", pos(e))
	return ""
}

// errs = multierr.Append(errs, <target>.Consume<Sig>(ctx, <arg>)) ; returns target expression and translated arg
func (c *fanCtx) appendCall(s ast.Stmt) (ast.Expr, string) {
	as, ok := s.(*ast.AssignStmt)
	if !ok || as.Tok != token.ASSIGN || len(as.Lhs) != 1 || len(as.Rhs) != 1 || ident(as.Lhs[0]) != "errs" {
		die("%s: expected `errs = multierr.Append(errs, …)`", pos(s))
	}
	call, ok := as.Rhs[0].(*ast.CallExpr)
	if !ok || len(call.Args) != 2 || ident(call.Args[0]) != "errs" {
		die("%s: expected multierr.Append(errs, …)", pos(s))
	}
	if x, f := sel(call.Fun); x != "multierr" || f != "Append" {
		die("%s: expected multierr.Append", pos(s))
	}
	inner, ok := call.Args[1].(*ast.CallExpr)
	if !ok || len(inner.Args) != 2 || ident(inner.Args[0]) != "ctx" {
		die("%s: expected <consumer>.Consume%s(ctx, …)", pos(s), c.sig)
	}
	se, ok := inner.Fun.(*ast.SelectorExpr)
	if !ok || se.Sel.Name != "Consume"+c.sig {
		die("%s: expected a call of Consume%s", pos(s), c.sig)
	}
	return se.X, c.arg(inner.Args[1])
}

func seq(parts []string) string {
	if len(parts) == 0 {
		return ".skip"
	}
	if len(parts) == 1 {
		return parts[0]
	}
	return fmt.Sprintf("(.seq %s %s)", parts[0], seq(parts[1:]))
}

func (c *fanCtx) block(list []ast.Stmt) string {
	var parts []string
	for _, s := range list {
		if t := c.stmt(s); t != "" {
			parts = append(parts, t)
		}
	}
	return seq(parts)
}

func (c *fanCtx) stmt(s ast.Stmt) string {
	switch v := s.(type) {
	case *ast.IfStmt:
		if v.Init != nil {
			die("%s: if with init", pos(s))
		}
		els := ".skip"
		switch e := v.Else.(type) {
		case nil:
		case *ast.BlockStmt:
			els = c.block(e.List)
		default:
			die("%s: unsupported else", pos(s))
		}
		return fmt.Sprintf("(.ite %s %s %s)", c.cond(v.Cond), c.block(v.Body.List), els)
	case *ast.ForStmt:
		// for i := 0; i < len(x.l)[-n]; i++ { errs = multierr.Append(errs, x.l[i].Consume(ctx, a)) }
		init, ok := v.Init.(*ast.AssignStmt)
		if !ok || init.Tok != token.DEFINE || len(init.Lhs) != 1 || len(init.Rhs) != 1 {
			die("%s: unsupported loop init", pos(s))
		}
		iv := ident(init.Lhs[0])
		if z, ok := intLit(init.Rhs[0]); !ok || z != 0 || iv == "" {
			die("%s: loop must start at 0", pos(s))
		}
		post, ok := v.Post.(*ast.IncDecStmt)
		if !ok || post.Tok != token.INC || ident(post.X) != iv {
			die("%s: loop must increment %s", pos(s), iv)
		}
		cnd, ok := v.Cond.(*ast.BinaryExpr)
		if !ok || cnd.Op != token.LSS || ident(cnd.X) != iv {
			die("%s: loop condition must be %s < …", pos(s), iv)
		}
		minus := 0
		bound := cnd.Y
		if be, ok := bound.(*ast.BinaryExpr); ok && be.Op == token.SUB {
			n, ok := intLit(be.Y)
			if !ok {
				die("%s: unsupported loop bound", pos(s))
			}
			minus, bound = n, be.X
		}
		l, ok := c.lenOf(bound)
		if !ok {
			die("%s: unsupported loop bound", pos(s))
		}
		if len(v.Body.List) != 1 {
			die("%s: loop body must be one statement", pos(s))
		}
		target, a := c.appendCall(v.Body.List[0])
		ix, ok := target.(*ast.IndexExpr)
		if !ok || ident(ix.Index) != iv {
			die("%s: loop body must call x.l[%s]", pos(s), iv)
		}
		x, f := sel(ix.X)
		if x != c.recv || lstName(f, s) != l {
			die("%s: loop ranges over %s but calls another slice", pos(s), l)
		}
		return fmt.Sprintf("(.loopCall %s %d %s)", l, minus, a)
	case *ast.RangeStmt:
		if ident(v.Key) != "_" || v.Tok != token.DEFINE || ident(v.Value) == "" {
			die("%s: unsupported range", pos(s))
		}
		x, f := sel(v.X)
		if x != c.recv {
			die("%s: range over something else than a consumer slice", pos(s))
		}
		if len(v.Body.List) != 1 {
			die("%s: range body must be one statement", pos(s))
		}
		target, a := c.appendCall(v.Body.List[0])
		if ident(target) != ident(v.Value) {
			die("%s: range body must call the range variable", pos(s))
		}
		return fmt.Sprintf("(.rangeCall %s %s)", lstName(f, s), a)
	case *ast.AssignStmt:
		if v.Tok == token.DEFINE {
			// last := x.l[len(x.l)-1]
			if len(v.Lhs) != 1 || len(v.Rhs) != 1 || ident(v.Lhs[0]) == "" {
				die("%s: unsupported definition", pos(s))
			}
			ix, ok := v.Rhs[0].(*ast.IndexExpr)
			if !ok {
				die("%s: unsupported definition", pos(s))
			}
			x, f := sel(ix.X)
			be, ok := ix.Index.(*ast.BinaryExpr)
			if x != c.recv || !ok || be.Op != token.SUB {
				die("%s: unsupported definition", pos(s))
			}
			l, ok1 := c.lenOf(be.X)
			n, ok2 := intLit(be.Y)
			if !ok1 || !ok2 || n != 1 || l != lstName(f, s) {
				die("%s: expected x.l[len(x.l)-1]", pos(s))
			}
			c.last[ident(v.Lhs[0])] = l
			return ""
		}
		target, a := c.appendCall(s)
		l, ok := c.last[ident(target)]
		if !ok {
			die("%s: call of something that is not the last element of a slice", pos(s))
		}
		return fmt.Sprintf("(.lastCall %s %s)", l, a)
	case *ast.ExprStmt:
		call, ok := v.X.(*ast.CallExpr)
		if ok {
			if x, f := sel(call.Fun); x == c.payload && f == "MarkReadOnly" && len(call.Args) == 0 {
				return ".markRO"
			}
		}
	}
	die("%s: unsupported statement", pos(s))
	return ""
}

func boolLean(b bool) string {
	if b {
		return "true"
	}
	return "false"
}

// cs[<idx>].Capabilities().MutatesData
func isCapOf(e ast.Expr, slice string, idx func(ast.Expr) bool) bool {
	se, ok := e.(*ast.SelectorExpr)
	if !ok || se.Sel.Name != "MutatesData" {
		return false
	}
	call, ok := se.X.(*ast.CallExpr)
	if !ok || len(call.Args) != 0 {
		return false
	}
	m, ok := call.Fun.(*ast.SelectorExpr)
	if !ok || m.Sel.Name != "Capabilities" {
		return false
	}
	ix, ok := m.X.(*ast.IndexExpr)
	return ok && ident(ix.X) == slice && idx(ix.Index)
}

func translateFan(repo, file, sig string) string {
	f := parse(filepath.Join(repo, "internal", "fanoutconsumer", file))
	typ := strings.ToLower(sig) + "Consumer"

	// --- New<Sig>
	nf := findFunc(f, "New"+sig, "")
	if nf == nil || len(nf.Type.Params.List) != 1 || len(nf.Type.Params.List[0].Names) != 1 {
		die("%s: New%s not found / unexpected signature", file, sig)
	}
	cs := nf.Type.Params.List[0].Names[0].Name
	body := nf.Body.List
	unwrap := false
	if len(body) > 0 {
		if is, ok := body[0].(*ast.IfStmt); ok {
			// if len(cs) == 1 && !cs[0].Capabilities().MutatesData { return cs[0] }
			be, ok := is.Cond.(*ast.BinaryExpr)
			good := ok && be.Op == token.LAND && is.Else == nil && is.Init == nil && len(is.Body.List) == 1
			if good {
				l, ok := be.X.(*ast.BinaryExpr)
				good = ok && l.Op == token.EQL
				if good {
					lc, ok := l.X.(*ast.CallExpr)
					n, ok2 := intLit(l.Y)
					good = ok && ok2 && n == 1 && ident(lc.Fun) == "len" && len(lc.Args) == 1 && ident(lc.Args[0]) == cs
				}
			}
			if good {
				u, ok := be.Y.(*ast.UnaryExpr)
				good = ok && u.Op == token.NOT && isCapOf(u.X, cs, func(e ast.Expr) bool { n, ok := intLit(e); return ok && n == 0 })
			}
			if good {
				r, ok := is.Body.List[0].(*ast.ReturnStmt)
				good = ok && len(r.Results) == 1
				if good {
					ix, ok := r.Results[0].(*ast.IndexExpr)
					n, ok2 := intLit(ix.Index)
					good = ok && ok2 && n == 0 && ident(ix.X) == cs
				}
			}
			if !good {
				die("%s: unsupported leading if in New%s", pos(is), sig)
			}
			unwrap = true
			body = body[1:]
		}
	}
	if len(body) != 3 {
		die("%s: New%s: expected `x := &%s{}`, the partition loop, `return x`", file, sig, typ)
	}
	def, ok := body[0].(*ast.AssignStmt)
	if !ok || def.Tok != token.DEFINE || len(def.Lhs) != 1 || len(def.Rhs) != 1 {
		die("%s: New%s: expected `x := &%s{}`", pos(body[0]), sig, typ)
	}
	xv := ident(def.Lhs[0])
	if u, ok := def.Rhs[0].(*ast.UnaryExpr); !ok || u.Op != token.AND {
		die("%s: expected &%s{}", pos(def), typ)
	} else if cl, ok := u.X.(*ast.CompositeLit); !ok || ident(cl.Type) != typ || len(cl.Elts) != 0 {
		die("%s: expected &%s{}", pos(def), typ)
	}
	loop, ok := body[1].(*ast.ForStmt)
	if !ok {
		die("%s: New%s: expected the partition loop", pos(body[1]), sig)
	}
	var iv string
	{
		init, ok := loop.Init.(*ast.AssignStmt)
		if !ok || init.Tok != token.DEFINE || len(init.Lhs) != 1 {
			die("%s: unsupported loop init", pos(loop))
		}
		iv = ident(init.Lhs[0])
		if z, ok := intLit(init.Rhs[0]); !ok || z != 0 {
			die("%s: loop must start at 0", pos(loop))
		}
		post, ok := loop.Post.(*ast.IncDecStmt)
		if !ok || post.Tok != token.INC || ident(post.X) != iv {
			die("%s: loop must increment", pos(loop))
		}
		cnd, ok := loop.Cond.(*ast.BinaryExpr)
		if !ok || cnd.Op != token.LSS || ident(cnd.X) != iv {
			die("%s: unsupported loop condition", pos(loop))
		}
		lc, ok := cnd.Y.(*ast.CallExpr)
		if !ok || ident(lc.Fun) != "len" || len(lc.Args) != 1 || ident(lc.Args[0]) != cs {
			die("%s: loop must run to len(%s)", pos(loop), cs)
		}
	}
	if len(loop.Body.List) != 1 {
		die("%s: partition loop body must be one if/else", pos(loop))
	}
	pif, ok := loop.Body.List[0].(*ast.IfStmt)
	if !ok || pif.Init != nil || !isCapOf(pif.Cond, cs, func(e ast.Expr) bool { return ident(e) == iv }) {
		die("%s: partition condition must be %s[%s].Capabilities().MutatesData", pos(loop), cs, iv)
	}
	appendTo := func(list []ast.Stmt) string {
		// x.l = append(x.l, cs[i])
		if len(list) != 1 {
			die("%s: partition branch must be one append", pos(pif))
		}
		as, ok := list[0].(*ast.AssignStmt)
		if !ok || as.Tok != token.ASSIGN || len(as.Lhs) != 1 || len(as.Rhs) != 1 {
			die("%s: partition branch must be one append", pos(list[0]))
		}
		x, fl := sel(as.Lhs[0])
		call, ok := as.Rhs[0].(*ast.CallExpr)
		if x != xv || !ok || ident(call.Fun) != "append" || len(call.Args) != 2 {
			die("%s: partition branch must be x.l = append(x.l, %s[%s])", pos(list[0]), cs, iv)
		}
		x2, f2 := sel(call.Args[0])
		ix, ok := call.Args[1].(*ast.IndexExpr)
		if x2 != xv || f2 != fl || !ok || ident(ix.X) != cs || ident(ix.Index) != iv {
			die("%s: partition branch must be x.l = append(x.l, %s[%s])", pos(list[0]), cs, iv)
		}
		return lstName(fl, list[0])
	}
	eb, ok := pif.Else.(*ast.BlockStmt)
	if !ok {
		die("%s: partition needs an else branch", pos(pif))
	}
	thenL, elseL := appendTo(pif.Body.List), appendTo(eb.List)
	if r, ok := body[2].(*ast.ReturnStmt); !ok || len(r.Results) != 1 || ident(r.Results[0]) != xv {
		die("%s: New%s must return the consumer it filled", pos(body[2]), sig)
	}

	// --- Capabilities
	cf := findFunc(f, "Capabilities", typ)
	if cf == nil || len(cf.Body.List) != 1 || len(cf.Recv.List[0].Names) != 1 {
		die("%s: (%s).Capabilities not found / not a single return", file, typ)
	}
	cctx := &fanCtx{sig: sig, recv: cf.Recv.List[0].Names[0].Name, last: map[string]string{}}
	ret, ok := cf.Body.List[0].(*ast.ReturnStmt)
	if !ok || len(ret.Results) != 1 {
		die("%s: Capabilities must be a single return", pos(cf))
	}
	cl, ok := ret.Results[0].(*ast.CompositeLit)
	if !ok || len(cl.Elts) != 1 {
		die("%s: Capabilities must return consumer.Capabilities{MutatesData: …}", pos(cf))
	}
	if x, t := sel(cl.Type); x != "consumer" || t != "Capabilities" {
		die("%s: Capabilities must return consumer.Capabilities{…}", pos(cf))
	}
	kvp, ok := cl.Elts[0].(*ast.KeyValueExpr)
	if !ok || ident(kvp.Key) != "MutatesData" {
		die("%s: Capabilities must set MutatesData", pos(cf))
	}
	capExp := cctx.cond(kvp.Value)

	// --- Consume<Sig>
	mf := findFunc(f, "Consume"+sig, typ)
	if mf == nil || len(mf.Type.Params.List) != 2 || len(mf.Recv.List[0].Names) != 1 {
		die("%s: (%s).Consume%s not found", file, typ, sig)
	}
	if n := mf.Type.Params.List[0].Names; len(n) != 1 || n[0].Name != "ctx" {
		die("%s: first parameter must be ctx", pos(mf))
	}
	mctx := &fanCtx{sig: sig, recv: mf.Recv.List[0].Names[0].Name, payload: mf.Type.Params.List[1].Names[0].Name, last: map[string]string{}}
	ml := mf.Body.List
	if len(ml) < 2 {
		die("%s: Consume%s too short", pos(mf), sig)
	}
	if ds, ok := ml[0].(*ast.DeclStmt); !ok {
		die("%s: Consume%s must start with `var errs error`", pos(ml[0]), sig)
	} else if gd, ok := ds.Decl.(*ast.GenDecl); !ok || gd.Tok != token.VAR || len(gd.Specs) != 1 {
		die("%s: Consume%s must start with `var errs error`", pos(ml[0]), sig)
	} else if vs := gd.Specs[0].(*ast.ValueSpec); len(vs.Names) != 1 || vs.Names[0].Name != "errs" || len(vs.Values) != 0 || ident(vs.Type) != "error" {
		die("%s: Consume%s must start with `var errs error`", pos(ml[0]), sig)
	}
	if r, ok := ml[len(ml)-1].(*ast.ReturnStmt); !ok || len(r.Results) != 1 || ident(r.Results[0]) != "errs" {
		die("%s: Consume%s must end with `return errs`", pos(ml[len(ml)-1]), sig)
	}
	consume := mctx.block(ml[1 : len(ml)-1])

	// --- clone<Sig>
	kf := findFunc(f, "clone"+sig, "")
	if kf == nil || len(kf.Type.Params.List) != 1 || len(kf.Body.List) != 3 {
		die("%s: clone%s not found / not three statements", file, sig)
	}
	src := kf.Type.Params.List[0].Names[0].Name
	fresh := false
	if d, ok := kf.Body.List[0].(*ast.AssignStmt); ok && d.Tok == token.DEFINE && len(d.Lhs) == 1 && len(d.Rhs) == 1 {
		nv := ident(d.Lhs[0])
		if call, ok := d.Rhs[0].(*ast.CallExpr); ok && len(call.Args) == 0 {
			if _, fn := sel(call.Fun); fn == "New"+sig {
				if es, ok := kf.Body.List[1].(*ast.ExprStmt); ok {
					if cc, ok := es.X.(*ast.CallExpr); ok && len(cc.Args) == 1 && ident(cc.Args[0]) == nv {
						if x, fn := sel(cc.Fun); x == src && fn == "CopyTo" {
							if r, ok := kf.Body.List[2].(*ast.ReturnStmt); ok && len(r.Results) == 1 && ident(r.Results[0]) == nv {
								fresh = true
							}
						}
					}
				}
			}
		}
	}
	if !fresh {
		die("%s: clone%s is not `n := New(); src.CopyTo(n); return n`", pos(kf), sig)
	}
	return fmt.Sprintf("{ unwrapSingleRO := %s, part := ⟨%s, %s⟩,\n    capExp := %s,\n    consume := %s,\n    cloneIsFreshCopy := %s }",
		boolLean(unwrap), thenL, elseL, capExp, consume, boolLean(fresh))
}

// ---------------------------------------------------------------- graph glue

// <x>.Capabilities().MutatesData  -> expression x
func capOf(e ast.Expr) ast.Expr {
	se, ok := e.(*ast.SelectorExpr)
	if !ok || se.Sel.Name != "MutatesData" {
		return nil
	}
	call, ok := se.X.(*ast.CallExpr)
	if !ok || len(call.Args) != 0 {
		return nil
	}
	m, ok := call.Fun.(*ast.SelectorExpr)
	if !ok || m.Sel.Name != "Capabilities" {
		return nil
	}
	return m.X
}

func exprString(e ast.Expr) string {
	switch v := e.(type) {
	case *ast.Ident:
		return v.Name
	case *ast.SelectorExpr:
		return exprString(v.X) + "." + v.Sel.Name
	case *ast.CallExpr:
		var a []string
		for _, x := range v.Args {
			a = append(a, exprString(x))
		}
		return exprString(v.Fun) + "(" + strings.Join(a, ",") + ")"
	case *ast.IndexExpr:
		return exprString(v.X) + "[" + exprString(v.Index) + "]"
	case *ast.TypeAssertExpr:
		return exprString(v.X) + ".(" + exprString(v.Type) + ")"
	case *ast.StarExpr:
		return "*" + exprString(v.X)
	case *ast.ParenExpr:
		return "(" + exprString(v.X) + ")"
	case *ast.BasicLit:
		return v.Value
	case *ast.BinaryExpr:
		return exprString(v.X) + " " + v.Op.String() + " " + exprString(v.Y)
	}
	return "?"
}

// `for _, v := range <over> { <acc>.MutatesData = <acc>.MutatesData || <v…>.Capabilities().MutatesData }` ; returns over, and the
// expression whose capability is or-ed in
func orLoop(s ast.Stmt, acc string) (string, string) {
	rs, ok := s.(*ast.RangeStmt)
	if !ok || ident(rs.Key) != "_" || len(rs.Body.List) != 1 {
		die("%s: expected `for _, v := range …` with one statement", pos(s))
	}
	as, ok := rs.Body.List[0].(*ast.AssignStmt)
	if !ok || as.Tok != token.ASSIGN || len(as.Lhs) != 1 || len(as.Rhs) != 1 {
		die("%s: expected `%s.MutatesData = %s.MutatesData || …`", pos(s), acc, acc)
	}
	if x, f := sel(as.Lhs[0]); x != acc || f != "MutatesData" {
		die("%s: expected assignment to %s.MutatesData", pos(as), acc)
	}
	be, ok := as.Rhs[0].(*ast.BinaryExpr)
	if !ok || be.Op != token.LOR {
		die("%s: capabilities must be combined with ||", pos(as))
	}
	if x, f := sel(be.X); x != acc || f != "MutatesData" {
		die("%s: expected %s.MutatesData || …", pos(as), acc)
	}
	who := capOf(be.Y)
	if who == nil {
		die("%s: expected ….Capabilities().MutatesData", pos(as))
	}
	return exprString(rs.X), exprString(who)
}

func translateAggregateCap(f *ast.File) string {
	fd := findFunc(f, "aggregateCap", "")
	if fd == nil || len(fd.Body.List) != 3 || len(fd.Type.Params.List) != 2 {
		die("connector.go: aggregateCap not found / unexpected shape")
	}
	base, nexts := fd.Type.Params.List[0].Names[0].Name, fd.Type.Params.List[1].Names[0].Name
	d, ok := fd.Body.List[0].(*ast.AssignStmt)
	if !ok || d.Tok != token.DEFINE || len(d.Lhs) != 1 || exprString(d.Rhs[0]) != base+".Capabilities()" {
		die("%s: aggregateCap must start from %s.Capabilities()", pos(fd), base)
	}
	acc := ident(d.Lhs[0])
	over, who := orLoop(fd.Body.List[1], acc)
	rs := fd.Body.List[1].(*ast.RangeStmt)
	if over != nexts || who != ident(rs.Value) {
		die("%s: aggregateCap must fold over %s", pos(fd), nexts)
	}
	if r, ok := fd.Body.List[2].(*ast.ReturnStmt); !ok || len(r.Results) != 1 || ident(r.Results[0]) != acc {
		die("%s: aggregateCap must return the accumulated capabilities", pos(fd))
	}
	return "(.foldOr .base .nexts)"
}

var sigs = []string{"Logs", "Metrics", "Traces", "Profiles"}

func sigConst(e ast.Expr) string {
	x, f := sel(e)
	if (x == "pipeline" || x == "xpipeline") && strings.HasPrefix(f, "Signal") {
		return strings.TrimPrefix(f, "Signal")
	}
	return ""
}

// the same-signal arm of build<Sig>: n.Component = component<Sig>{Component: conn, <Sig>: capabilityconsumer.New<Sig>(conn, aggregateCap(conn, nexts))}
func connectorWraps(f *ast.File, sig string) bool {
	fd := findFunc(f, "build"+sig, "connectorNode")
	if fd == nil {
		die("connector.go: build%s not found", sig)
	}
	found, good := false, false
	ast.Inspect(fd, func(n ast.Node) bool {
		sw, ok := n.(*ast.SwitchStmt)
		if !ok || exprString(sw.Tag) != "n.exprPipelineType" {
			return true
		}
		for _, c := range sw.Body.List {
			cc := c.(*ast.CaseClause)
			if len(cc.List) != 1 || sigConst(cc.List[0]) != sig {
				continue
			}
			found = true
			var conn string
			for _, s := range cc.Body {
				as, ok := s.(*ast.AssignStmt)
				if !ok || len(as.Rhs) != 1 {
					continue
				}
				if call, ok := as.Rhs[0].(*ast.CallExpr); ok && len(as.Lhs) == 2 {
					if _, fn := sel(call.Fun); fn == "Create"+sig+"To"+sig {
						conn = ident(as.Lhs[0])
					}
				}
				if exprString(as.Lhs[0]) == "n.Component" && len(as.Lhs) == 1 {
					cl, ok := as.Rhs[0].(*ast.CompositeLit)
					if !ok {
						continue
					}
					for _, el := range cl.Elts {
						kv, ok := el.(*ast.KeyValueExpr)
						if ok && ident(kv.Key) == sig &&
							exprString(kv.Value) == fmt.Sprintf("capabilityconsumer.New%s(%s,aggregateCap(%s,nexts))", sig, conn, conn) && conn != "" {
							good = true
						}
					}
				}
			}
		}
		return false
	})
	if !found {
		die("connector.go: build%s has no case for its own signal", sig)
	}
	return good
}


// the three cross-signal arms of build<Sig>: `n.Component, err = builder.Create<Other>To<Sig>(ctx, set, next)` — the connector is exposed
// to the pipeline that feeds it UNWRAPPED (it advertises its own declared capability)
func connectorCrossUnwrapped(f *ast.File, sig string) bool {
	fd := findFunc(f, "build"+sig, "connectorNode")
	if fd == nil {
		die("connector.go: build%s not found", sig)
	}
	n, good := 0, 0
	ast.Inspect(fd, func(x ast.Node) bool {
		sw, ok := x.(*ast.SwitchStmt)
		if !ok || exprString(sw.Tag) != "n.exprPipelineType" {
			return true
		}
		for _, c := range sw.Body.List {
			cc := c.(*ast.CaseClause)
			if len(cc.List) != 1 {
				die("%s: unsupported case", pos(cc))
			}
			other := sigConst(cc.List[0])
			if other == sig {
				continue
			}
			n++
			if len(cc.Body) == 1 {
				if as, ok := cc.Body[0].(*ast.AssignStmt); ok && len(as.Lhs) == 2 && len(as.Rhs) == 1 &&
					exprString(as.Lhs[0]) == "n.Component" && ident(as.Lhs[1]) == "err" &&
					exprString(as.Rhs[0]) == fmt.Sprintf("builder.Create%sTo%s(ctx,set,next)", other, sig) {
					good++
				}
			}
		}
		return false
	})
	return n == 3 && good == 3
}

// graph.go buildComponents, case *capabilitiesNode
func translateCapNode(f *ast.File) (string, map[string]bool) {
	fd := findFunc(f, "buildComponents", "Graph")
	if fd == nil {
		die("graph.go: buildComponents not found")
	}
	var clause *ast.CaseClause
	ast.Inspect(fd, func(n ast.Node) bool {
		cc, ok := n.(*ast.CaseClause)
		if ok && len(cc.List) == 1 && exprString(cc.List[0]) == "*capabilitiesNode" {
			clause = cc
			return false
		}
		return true
	})
	if clause == nil || len(clause.Body) != 4 {
		die("graph.go: case *capabilitiesNode not found / not four statements")
	}
	d, ok := clause.Body[0].(*ast.AssignStmt)
	if !ok || d.Tok != token.DEFINE || len(d.Lhs) != 1 {
		die("%s: expected `capability := consumer.Capabilities{…}`", pos(clause))
	}
	acc := ident(d.Lhs[0])
	cl, ok := d.Rhs[0].(*ast.CompositeLit)
	if !ok || len(cl.Elts) != 1 {
		die("%s: expected consumer.Capabilities{MutatesData: …}", pos(d))
	}
	kvp, ok := cl.Elts[0].(*ast.KeyValueExpr)
	if !ok || ident(kvp.Key) != "MutatesData" {
		die("%s: expected MutatesData: …", pos(d))
	}
	who := capOf(kvp.Value)
	if who == nil || exprString(who) != "g.pipelines[n.pipelineID].fanOutNode.getConsumer()" {
		die("%s: the capability must start from the pipeline's fan-out node", pos(d))
	}
	over, each := orLoop(clause.Body[1], acc)
	rs := clause.Body[1].(*ast.RangeStmt)
	if over != "g.pipelines[n.pipelineID].processors" || each != ident(rs.Value)+".(*processorNode).getConsumer()" {
		die("%s: the capability must be or-ed over the pipeline's processors", pos(clause.Body[1]))
	}
	nx, ok := clause.Body[2].(*ast.AssignStmt)
	if !ok || exprString(nx.Rhs[0]) != "g.nextConsumers(n.ID())[0]" {
		die("%s: expected next := g.nextConsumers(n.ID())[0]", pos(clause.Body[2]))
	}
	next := ident(nx.Lhs[0])
	sw, ok := clause.Body[3].(*ast.SwitchStmt)
	if !ok {
		die("%s: expected the per-signal switch", pos(clause.Body[3]))
	}
	wraps := map[string]bool{}
	for _, c := range sw.Body.List {
		cc := c.(*ast.CaseClause)
		if len(cc.List) != 1 {
			die("%s: unsupported case", pos(cc))
		}
		sig := sigConst(cc.List[0])
		good := false
		var ccv string
		okBase, okFunc := false, false
		for _, s := range cc.Body {
			as, ok := s.(*ast.AssignStmt)
			if !ok || len(as.Lhs) != 1 || len(as.Rhs) != 1 {
				continue
			}
			if call, ok := as.Rhs[0].(*ast.CallExpr); ok && as.Tok == token.DEFINE {
				if exprString(call.Fun) == "capabilityconsumer.New"+sig && len(call.Args) == 2 && ident(call.Args[1]) == acc {
					if ta, ok := call.Args[0].(*ast.TypeAssertExpr); ok && ident(ta.X) == next {
						good = true
						ccv = ident(as.Lhs[0])
					}
				}
			}
			if exprString(as.Lhs[0]) == "n.baseConsumer" && ident(as.Rhs[0]) == ccv && ccv != "" {
				okBase = true
			}
			if exprString(as.Lhs[0]) == "n.Consume"+sig+"Func" && exprString(as.Rhs[0]) == ccv+".Consume"+sig && ccv != "" {
				okFunc = true
			}
		}
		wraps[sig] = good && okBase && okFunc
	}
	return "(.foldOr .fanOut .processors)", wraps
}

// capabilityconsumer.New<Sig>: `if x.Capabilities() == capabilities { return x }; return cap<Sig>{<Sig>: x, cap: capabilities}`
// and `func (w cap<Sig>) Capabilities() consumer.Capabilities { return w.cap }`
func capConsumerOK(f *ast.File, sig string) bool {
	fd := findFunc(f, "New"+sig, "")
	if fd == nil || len(fd.Body.List) != 2 || len(fd.Type.Params.List) != 2 {
		die("capabilities.go: New%s not found / unexpected shape", sig)
	}
	x, want := fd.Type.Params.List[0].Names[0].Name, fd.Type.Params.List[1].Names[0].Name
	is, ok := fd.Body.List[0].(*ast.IfStmt)
	if !ok || is.Else != nil || len(is.Body.List) != 1 {
		return false
	}
	be, ok := is.Cond.(*ast.BinaryExpr)
	if !ok || be.Op != token.EQL || exprString(be.X) != x+".Capabilities()" || ident(be.Y) != want {
		return false
	}
	if r, ok := is.Body.List[0].(*ast.ReturnStmt); !ok || len(r.Results) != 1 || ident(r.Results[0]) != x {
		return false
	}
	r, ok := fd.Body.List[1].(*ast.ReturnStmt)
	if !ok || len(r.Results) != 1 {
		return false
	}
	cl, ok := r.Results[0].(*ast.CompositeLit)
	if !ok || ident(cl.Type) != "cap"+sig || len(cl.Elts) != 2 {
		return false
	}
	var capField string
	inner := false
	for _, el := range cl.Elts {
		kv, ok := el.(*ast.KeyValueExpr)
		if !ok {
			return false
		}
		if ident(kv.Value) == want {
			capField = ident(kv.Key)
		}
		if ident(kv.Key) == sig && ident(kv.Value) == x {
			inner = true
		}
	}
	if capField == "" || !inner {
		return false
	}
	m := findFunc(f, "Capabilities", "cap"+sig)
	if m == nil || len(m.Body.List) != 1 || len(m.Recv.List[0].Names) != 1 {
		return false
	}
	mr, ok := m.Body.List[0].(*ast.ReturnStmt)
	return ok && len(mr.Results) == 1 && exprString(mr.Results[0]) == m.Recv.List[0].Names[0].Name+"."+capField
}


// ---------------------------------------------------------------- helper glue (declared capability -> advertised capability)

// consumer.WithCapabilities(consumer.Capabilities{MutatesData: <lit>}) -> lit
func withCapLit(e ast.Expr) (bool, bool) {
	call, ok := e.(*ast.CallExpr)
	if !ok || exprString(call.Fun) != "consumer.WithCapabilities" || len(call.Args) != 1 {
		return false, false
	}
	return capLit(call.Args[0])
}

// [consumer.]Capabilities{MutatesData: true|false}
func capLit(e ast.Expr) (bool, bool) {
	cl, ok := e.(*ast.CompositeLit)
	if !ok || len(cl.Elts) != 1 || !strings.HasSuffix(exprString(cl.Type), "Capabilities") {
		return false, false
	}
	kv, ok := cl.Elts[0].(*ast.KeyValueExpr)
	if !ok || ident(kv.Key) != "MutatesData" {
		return false, false
	}
	switch ident(kv.Value) {
	case "true":
		return true, true
	case "false":
		return false, true
	}
	return false, false
}

// <recv>.<field> = append(<recv>.<field>, consumer.WithCapabilities(<param>)) somewhere inside fn
func appendsDeclared(fd *ast.FuncDecl, field string) bool {
	if fd == nil || len(fd.Type.Params.List) != 1 {
		return false
	}
	param := fd.Type.Params.List[0].Names[0].Name
	n, good := 0, false
	ast.Inspect(fd, func(x ast.Node) bool {
		as, ok := x.(*ast.AssignStmt)
		if !ok {
			return true
		}
		n++
		if len(as.Lhs) == 1 && len(as.Rhs) == 1 {
			if _, f := sel(as.Lhs[0]); f == field {
				if call, ok := as.Rhs[0].(*ast.CallExpr); ok && ident(call.Fun) == "append" && len(call.Args) == 2 &&
					exprString(call.Args[0]) == exprString(as.Lhs[0]) && exprString(call.Args[1]) == "consumer.WithCapabilities("+param+")" {
					good = true
				}
			}
		}
		return true
	})
	return good && n == 1
}

// processor helper: fromOptions starts from consumerOptions: []consumer.Option{consumer.WithCapabilities(consumer.Capabilities{MutatesData: X})},
// then applies the options in order; WithCapabilities appends. Returns the list of default declarations.
func processorHelper(path string) string {
	f := parse(path)
	fd := findFunc(f, "fromOptions", "")
	if fd == nil || len(fd.Body.List) != 3 {
		die("%s: fromOptions not found / not three statements", path)
	}
	d, ok := fd.Body.List[0].(*ast.AssignStmt)
	if !ok || d.Tok != token.DEFINE || len(d.Rhs) != 1 {
		die("%s: fromOptions must start with the default settings", pos(fd))
	}
	optsVar := ident(d.Lhs[0])
	u, ok := d.Rhs[0].(*ast.UnaryExpr)
	if !ok {
		die("%s: expected &baseSettings{…}", pos(d))
	}
	cl, ok := u.X.(*ast.CompositeLit)
	if !ok || ident(cl.Type) != "baseSettings" || len(cl.Elts) != 1 {
		die("%s: expected &baseSettings{consumerOptions: …}", pos(d))
	}
	kv, ok := cl.Elts[0].(*ast.KeyValueExpr)
	if !ok || ident(kv.Key) != "consumerOptions" {
		die("%s: expected consumerOptions: …", pos(d))
	}
	lst, ok := kv.Value.(*ast.CompositeLit)
	if !ok {
		die("%s: expected a []consumer.Option literal", pos(d))
	}
	var defaults []string
	for _, el := range lst.Elts {
		b, ok := withCapLit(el)
		if !ok {
			die("%s: unsupported default consumer option", pos(el))
		}
		defaults = append(defaults, boolLean(b))
	}
	rs, ok := fd.Body.List[1].(*ast.RangeStmt)
	if !ok || len(rs.Body.List) != 1 || exprString(rs.X) != fd.Type.Params.List[0].Names[0].Name {
		die("%s: fromOptions must apply the options in order", pos(fd))
	}
	if es, ok := rs.Body.List[0].(*ast.ExprStmt); !ok || exprString(es.X) != ident(rs.Value)+".apply("+optsVar+")" {
		die("%s: fromOptions must apply the options in order", pos(fd))
	}
	if r, ok := fd.Body.List[2].(*ast.ReturnStmt); !ok || len(r.Results) != 1 || ident(r.Results[0]) != optsVar {
		die("%s: fromOptions must return the settings", pos(fd))
	}
	if !appendsDeclared(findFunc(f, "WithCapabilities", ""), "consumerOptions") {
		die("%s: WithCapabilities must append consumer.WithCapabilities(capabilities) to consumerOptions", path)
	}
	return "[" + strings.Join(defaults, ", ") + "]"
}

// consumer/internal: NewBaseImpl starts from Cap: Capabilities{MutatesData: X} and applies the options in order;
// consumer.WithCapabilities overwrites Cap
func consumerDefault(repo string) string {
	f := parse(filepath.Join(repo, "consumer", "internal", "consumer.go"))
	fd := findFunc(f, "NewBaseImpl", "")
	if fd == nil || len(fd.Body.List) != 3 {
		die("consumer/internal/consumer.go: NewBaseImpl not found / not three statements")
	}
	d, ok := fd.Body.List[0].(*ast.AssignStmt)
	if !ok || d.Tok != token.DEFINE {
		die("%s: unexpected shape", pos(fd))
	}
	bs := ident(d.Lhs[0])
	u, ok := d.Rhs[0].(*ast.UnaryExpr)
	if !ok {
		die("%s: unexpected shape", pos(fd))
	}
	cl, ok := u.X.(*ast.CompositeLit)
	if !ok || ident(cl.Type) != "BaseImpl" || len(cl.Elts) != 1 {
		die("%s: expected &BaseImpl{Cap: …}", pos(fd))
	}
	kv, ok := cl.Elts[0].(*ast.KeyValueExpr)
	if !ok || ident(kv.Key) != "Cap" {
		die("%s: expected Cap: …", pos(fd))
	}
	b, ok := capLit(kv.Value)
	if !ok {
		die("%s: expected Capabilities{MutatesData: true|false}", pos(fd))
	}
	rs, ok := fd.Body.List[1].(*ast.RangeStmt)
	if !ok || len(rs.Body.List) != 1 || exprString(rs.X) != "options" {
		die("%s: NewBaseImpl must apply the options in order", pos(fd))
	}
	if es, ok := rs.Body.List[0].(*ast.ExprStmt); !ok || exprString(es.X) != ident(rs.Value)+".apply("+bs+")" {
		die("%s: NewBaseImpl must apply the options in order", pos(fd))
	}
	// consumer.WithCapabilities: o.Cap = capabilities
	cf := parse(filepath.Join(repo, "consumer", "consumer.go"))
	wc := findFunc(cf, "WithCapabilities", "")
	if wc == nil {
		die("consumer/consumer.go: WithCapabilities not found")
	}
	param := wc.Type.Params.List[0].Names[0].Name
	n, good := 0, false
	ast.Inspect(wc, func(x ast.Node) bool {
		if as, ok := x.(*ast.AssignStmt); ok {
			n++
			if _, fl := sel(as.Lhs[0]); fl == "Cap" && len(as.Rhs) == 1 && ident(as.Rhs[0]) == param && as.Tok == token.ASSIGN {
				good = true
			}
		}
		return true
	})
	if !good || n != 1 {
		die("consumer/consumer.go: WithCapabilities must overwrite Cap")
	}
	// Capabilities() returns bs.Cap
	cm := findFunc(f, "Capabilities", "BaseImpl")
	if cm == nil || len(cm.Body.List) != 1 {
		die("consumer/internal/consumer.go: BaseImpl.Capabilities not found")
	}
	if r, ok := cm.Body.List[0].(*ast.ReturnStmt); !ok || len(r.Results) != 1 || exprString(r.Results[0]) != cm.Recv.List[0].Names[0].Name+".Cap" {
		die("consumer/internal/consumer.go: BaseImpl.Capabilities must return Cap")
	}
	return boolLean(b)
}

// exporter helper: NewBaseExporter applies the exporter's options in order (WithCapabilities appends to ConsumerOptions) and
// AFTERWARDS appends consumer.WithCapabilities(Capabilities{MutatesData: X}) when <cond>. Returns X and the condition.
func exporterHelper(repo string) (string, string) {
	path := filepath.Join(repo, "exporter", "exporterhelper", "internal", "base_exporter.go")
	f := parse(path)
	fd := findFunc(f, "NewBaseExporter", "")
	if fd == nil {
		die("%s: NewBaseExporter not found", path)
	}
	optIdx, batchIdx := -1, -1
	var lit bool
	var cond string
	for i, s := range fd.Body.List {
		if rs, ok := s.(*ast.RangeStmt); ok && exprString(rs.X) == "options" {
			optIdx = i
		}
		is, ok := s.(*ast.IfStmt)
		if !ok || len(is.Body.List) != 1 || is.Else != nil {
			continue
		}
		as, ok := is.Body.List[0].(*ast.AssignStmt)
		if !ok || len(as.Lhs) != 1 || exprString(as.Lhs[0]) != "be.ConsumerOptions" {
			continue
		}
		call, ok := as.Rhs[0].(*ast.CallExpr)
		if !ok || ident(call.Fun) != "append" || len(call.Args) != 2 || exprString(call.Args[0]) != "be.ConsumerOptions" {
			die("%s: unsupported change of be.ConsumerOptions", pos(as))
		}
		b, ok := withCapLit(call.Args[1])
		if !ok {
			die("%s: unsupported consumer option", pos(as))
		}
		if batchIdx >= 0 {
			die("%s: more than one conditional capability", pos(as))
		}
		batchIdx, lit = i, b
		be, ok := is.Cond.(*ast.BinaryExpr)
		if !ok || be.Op != token.LOR {
			die("%s: unsupported batching condition", pos(is))
		}
		cond = exprString(be.X) + " || "
		if ne, ok := be.Y.(*ast.BinaryExpr); ok && ne.Op == token.NEQ {
			cond += exprString(ne.X) + " != " + exprString(ne.Y)
		} else {
			die("%s: unsupported batching condition", pos(is))
		}
	}
	// no other writer of ConsumerOptions in NewBaseExporter
	writers := 0
	ast.Inspect(fd, func(x ast.Node) bool {
		if as, ok := x.(*ast.AssignStmt); ok {
			for _, l := range as.Lhs {
				if exprString(l) == "be.ConsumerOptions" {
					writers++
				}
			}
		}
		return true
	})
	if optIdx < 0 || batchIdx < 0 || optIdx > batchIdx || writers != 1 {
		die("%s: NewBaseExporter: options loop then ONE conditional capability expected", path)
	}
	if !appendsDeclared(findFunc(f, "WithCapabilities", ""), "ConsumerOptions") {
		die("%s: WithCapabilities must append consumer.WithCapabilities(capabilities) to ConsumerOptions", path)
	}
	return boolLean(lit), cond
}


// ---------------------------------------------------------------- connector routers

// translate a `Consumer(ids ...pipeline.ID) (T, error)` method: returns the Route record fields
// (emptyIsError, lookupInOrder, missingIsError, fanoutOverFound); fanoutCall = expected constructor expression text
func translateRouteConsumer(fd *ast.FuncDecl, fanoutCall string, where string) (bool, bool, bool, bool) {
	if fd == nil || len(fd.Type.Params.List) != 1 || len(fd.Recv.List[0].Names) != 1 {
		die("%s: Consumer method not found", where)
	}
	recv := fd.Recv.List[0].Names[0].Name
	ids := fd.Type.Params.List[0].Names[0].Name
	body := fd.Body.List
	// optional `var ret T`
	if ds, ok := body[0].(*ast.DeclStmt); ok {
		_ = ds
		body = body[1:]
	}
	if len(body) != 6 {
		die("%s: Consumer: expected six statements (empty check, make, var errs, lookup loop, error check, return)", pos(fd))
	}
	isErrReturn := func(s ast.Stmt) bool {
		r, ok := s.(*ast.ReturnStmt)
		return ok && len(r.Results) == 2 && (ident(r.Results[0]) == "nil" || ident(r.Results[0]) == "ret") && ident(r.Results[1]) != "nil"
	}
	// 1. if len(ids) == 0 { return <zero>, error }
	emptyIsError := false
	if is, ok := body[0].(*ast.IfStmt); ok && is.Else == nil && len(is.Body.List) == 1 && exprString(is.Cond) == "len("+ids+") == 0" && isErrReturn(is.Body.List[0]) {
		emptyIsError = true
	} else {
		die("%s: Consumer must reject an empty selection first", pos(body[0]))
	}
	// 2. consumers := make(…)
	mk, ok := body[1].(*ast.AssignStmt)
	if !ok || mk.Tok != token.DEFINE || len(mk.Lhs) != 1 {
		die("%s: expected consumers := make(…)", pos(body[1]))
	}
	cons := ident(mk.Lhs[0])
	if call, ok := mk.Rhs[0].(*ast.CallExpr); !ok || ident(call.Fun) != "make" || len(call.Args) != 3 || exprString(call.Args[1]) != "0" {
		die("%s: expected consumers := make([]T, 0, …)", pos(body[1]))
	}
	// 3. var errs error
	ds, ok := body[2].(*ast.DeclStmt)
	if !ok {
		die("%s: expected var errors error", pos(body[2]))
	}
	errv := ds.Decl.(*ast.GenDecl).Specs[0].(*ast.ValueSpec).Names[0].Name
	// 4. for _, id := range ids { c, ok := r.Consumers[id]; if ok { consumers = append(consumers, c) } else { errs = multierr.Append(errs, …) } }
	lookupInOrder := false
	if rs, ok := body[3].(*ast.RangeStmt); ok && ident(rs.Key) == "_" && ident(rs.X) == ids && len(rs.Body.List) == 2 {
		id := ident(rs.Value)
		as, ok1 := rs.Body.List[0].(*ast.AssignStmt)
		is, ok2 := rs.Body.List[1].(*ast.IfStmt)
		if ok1 && ok2 && as.Tok == token.DEFINE && len(as.Lhs) == 2 && exprString(as.Rhs[0]) == recv+".Consumers["+id+"]" &&
			ident(is.Cond) == ident(as.Lhs[1]) && len(is.Body.List) == 1 {
			c := ident(as.Lhs[0])
			ap, ok3 := is.Body.List[0].(*ast.AssignStmt)
			eb, ok4 := is.Else.(*ast.BlockStmt)
			if ok3 && ok4 && len(eb.List) == 1 && ident(ap.Lhs[0]) == cons && exprString(ap.Rhs[0]) == "append("+cons+","+c+")" {
				if ea, ok := eb.List[0].(*ast.AssignStmt); ok && ident(ea.Lhs[0]) == errv && strings.HasPrefix(exprString(ea.Rhs[0]), "multierr.Append("+errv+",") {
					lookupInOrder = true
				}
			}
		}
	}
	if !lookupInOrder {
		die("%s: unsupported lookup loop", pos(body[3]))
	}
	// 5. if errs != nil { return <zero>, errs }
	missingIsError := false
	if is, ok := body[4].(*ast.IfStmt); ok && is.Else == nil && len(is.Body.List) == 1 && exprString(is.Cond) == errv+" != nil" {
		if r, ok := is.Body.List[0].(*ast.ReturnStmt); ok && len(r.Results) == 2 && ident(r.Results[1]) == errv && (ident(r.Results[0]) == "nil" || ident(r.Results[0]) == "ret") {
			missingIsError = true
		}
	}
	if !missingIsError {
		die("%s: a missing pipeline must make Consumer fail", pos(body[4]))
	}
	// 6. return <fanout>(consumers), nil
	r, ok := body[5].(*ast.ReturnStmt)
	if !ok || len(r.Results) != 2 || ident(r.Results[1]) != "nil" {
		die("%s: unsupported final return", pos(body[5]))
	}
	fanoutOverFound := exprString(r.Results[0]) == fanoutCall+"("+cons+")"
	return emptyIsError, lookupInOrder, missingIsError, fanoutOverFound
}

// New<Sig>Router(cm): the router itself consumes through fanoutconsumer.New<Sig>(all consumers of cm) and its BaseRouter is
// internal.NewBaseRouter(fanoutconsumer.New<Sig>, cm)
func routerCtor(f *ast.File, sig string, where string) bool {
	fd := findFunc(f, "New"+sig+"Router", "")
	if fd == nil || len(fd.Body.List) != 3 {
		die("%s: New%sRouter not found / not three statements", where, sig)
	}
	cm := fd.Type.Params.List[0].Names[0].Name
	mk, ok := fd.Body.List[0].(*ast.AssignStmt)
	if !ok || mk.Tok != token.DEFINE {
		die("%s: unexpected shape", pos(fd))
	}
	cons := ident(mk.Lhs[0])
	rs, ok := fd.Body.List[1].(*ast.RangeStmt)
	if !ok || ident(rs.X) != cm || len(rs.Body.List) != 1 || ident(rs.Key) != "_" {
		die("%s: expected a loop over all consumers of the map", pos(fd))
	}
	if as, ok := rs.Body.List[0].(*ast.AssignStmt); !ok || exprString(as.Rhs[0]) != "append("+cons+","+ident(rs.Value)+")" || ident(as.Lhs[0]) != cons {
		die("%s: expected consumers = append(consumers, c)", pos(rs))
	}
	r, ok := fd.Body.List[2].(*ast.ReturnStmt)
	if !ok || len(r.Results) != 1 {
		die("%s: unexpected return", pos(fd))
	}
	u, ok := r.Results[0].(*ast.UnaryExpr)
	if !ok {
		die("%s: unexpected return", pos(fd))
	}
	cl, ok := u.X.(*ast.CompositeLit)
	if !ok || len(cl.Elts) != 2 {
		die("%s: unexpected router literal", pos(fd))
	}
	okDefault, okBase := false, false
	for _, el := range cl.Elts {
		kv := el.(*ast.KeyValueExpr)
		switch ident(kv.Key) {
		case sig:
			okDefault = exprString(kv.Value) == "fanoutconsumer.New"+sig+"("+cons+")"
		case "BaseRouter":
			okBase = exprString(kv.Value) == "internal.NewBaseRouter(fanoutconsumer.New"+sig+","+cm+")"
		}
	}
	return okDefault && okBase
}

// internal.NewBaseRouter(fanout, cm): copies the map, keeps the constructor
func baseRouterCtorOK(f *ast.File) bool {
	fd := findFunc(f, "NewBaseRouter", "")
	if fd == nil || len(fd.Body.List) != 3 {
		die("connector/internal/router.go: NewBaseRouter not found / not three statements")
	}
	rs, ok := fd.Body.List[1].(*ast.RangeStmt)
	if !ok || len(rs.Body.List) != 1 {
		return false
	}
	as, ok := rs.Body.List[0].(*ast.AssignStmt)
	if !ok || exprString(as.Lhs[0]) != "consumers["+ident(rs.Key)+"]" || ident(as.Rhs[0]) != ident(rs.Value) {
		return false
	}
	r, ok := fd.Body.List[2].(*ast.ReturnStmt)
	if !ok || len(r.Results) != 1 {
		return false
	}
	cl, ok := r.Results[0].(*ast.CompositeLit)
	if !ok || len(cl.Elts) != 2 {
		return false
	}
	n := 0
	for _, el := range cl.Elts {
		kv := el.(*ast.KeyValueExpr)
		if ident(kv.Key) == "fanout" && ident(kv.Value) == "fanout" {
			n++
		}
		if ident(kv.Key) == "Consumers" && ident(kv.Value) == "consumers" {
			n++
		}
	}
	return n == 2
}

func translateRouters(repo string) string {
	base := parse(filepath.Join(repo, "connector", "internal", "router.go"))
	baseOK := baseRouterCtorOK(base)
	var baseConsumer *ast.FuncDecl
	for _, d := range base.Decls {
		if fd, ok := d.(*ast.FuncDecl); ok && fd.Name.Name == "Consumer" && fd.Recv != nil {
			baseConsumer = fd
		}
	}
	files := map[string]string{"Logs": "connector/logs_router.go", "Metrics": "connector/metrics_router.go", "Traces": "connector/traces_router.go",
		"Profiles": "connector/xconnector/profiles_router.go"}
	var out []string
	for _, sig := range sigs {
		f := parse(filepath.Join(repo, files[sig]))
		ctor := routerCtor(f, sig, files[sig])
		own := findFunc(f, "Consumer", strings.ToLower(sig)+"Router")
		var e, l, m, fo bool
		if own != nil {
			e, l, m, fo = translateRouteConsumer(own, "fanoutconsumer.New"+sig, files[sig])
		} else {
			// the embedded internal.BaseRouter[T].Consumer with the constructor given to NewBaseRouter
			e, l, m, fo = translateRouteConsumer(baseConsumer, baseConsumer.Recv.List[0].Names[0].Name+".fanout", "connector/internal/router.go")
			fo = fo && baseOK
		}
		out = append(out, fmt.Sprintf("(\"%s\", { emptyIsError := %s, lookupInOrder := %s, missingIsError := %s, fanoutOverFound := %s, defaultOverAll := %s })",
			strings.ToLower(sig), boolLean(e), boolLean(l), boolLean(m), boolLean(fo), boolLean(ctor)))
	}
	return "[" + strings.Join(out, ",\n  ") + "]"
}

func main() {
	if len(os.Args) < 2 {
		die("usage: fanoutshape <repo>")
	}
	repo := os.Args[1]
	var b strings.Builder
	b.WriteString("import OtelVerif.Model.C06Src\n")
	b.WriteString("/-! GENERATED by translators/cmd/fanoutshape from internal/fanoutconsumer/{logs,metrics,traces,profiles}.go,\n")
	b.WriteString("service/internal/graph/{connector,graph}.go and service/internal/capabilityconsumer/capabilities.go — do not edit.\n")
	b.WriteString("Each fan-out file's New*/Capabilities/Consume*/clone* as a program of `OtelVerif.C06.Src`; the graph's capability glue. -/\n")
	b.WriteString("namespace OtelVerif.Gen.FanoutShape\nopen OtelVerif.C06.Src\n\n")
	files := map[string]string{"Logs": "logs.go", "Metrics": "metrics.go", "Traces": "traces.go", "Profiles": "profiles.go"}
	for _, sig := range sigs {
		fmt.Fprintf(&b, "def %s : Fan :=\n  %s\n\n", strings.ToLower(sig), translateFan(repo, files[sig], sig))
	}
	b.WriteString("def all : List (String × Fan) := [(\"logs\", logs), (\"metrics\", metrics), (\"traces\", traces), (\"profiles\", profiles)]\n\n")

	conn := parse(filepath.Join(repo, "service", "internal", "graph", "connector.go"))
	gr := parse(filepath.Join(repo, "service", "internal", "graph", "graph.go"))
	cc := parse(filepath.Join(repo, "service", "internal", "capabilityconsumer", "capabilities.go"))
	fmt.Fprintf(&b, "/-- `connector.go` `aggregateCap(base, nexts)` -/\ndef aggregateCapExp : CapExp := %s\n\n", translateAggregateCap(conn))
	capExp, capWraps := translateCapNode(gr)
	fmt.Fprintf(&b, "/-- `graph.go` `case *capabilitiesNode:` the capability the pipeline advertises -/\ndef capNodeExp : CapExp := %s\n\n", capExp)
	b.WriteString("/-- per signal: the capabilities node wraps its next consumer with `capabilityconsumer.New<Sig>(next, capability)` and exposes that wrapper -/\n")
	b.WriteString("def capNodeWraps : List (String × Bool) := [")
	for i, sig := range sigs {
		if i > 0 {
			b.WriteString(", ")
		}
		w, ok := capWraps[sig]
		if !ok {
			die("graph.go: capabilities node has no arm for %s", sig)
		}
		fmt.Fprintf(&b, "(\"%s\", %s)", strings.ToLower(sig), boolLean(w))
	}
	b.WriteString("]\n\n")
	b.WriteString("/-- per signal: `connectorNode.build<Sig>`'s same-signal arm exposes `capabilityconsumer.New<Sig>(conn, aggregateCap(conn, nexts))` -/\n")
	b.WriteString("def connectorWraps : List (String × Bool) := [")
	for i, sig := range sigs {
		if i > 0 {
			b.WriteString(", ")
		}
		fmt.Fprintf(&b, "(\"%s\", %s)", strings.ToLower(sig), boolLean(connectorWraps(conn, sig)))
	}
	b.WriteString("]\n\n")
	b.WriteString("/-- per signal: the three cross-signal arms of `connectorNode.build<Sig>` expose the connector unwrapped (its own declared capability) -/\n")
	b.WriteString("def connectorCrossUnwrapped : List (String × Bool) := [")
	for i, sig := range sigs {
		if i > 0 {
			b.WriteString(", ")
		}
		fmt.Fprintf(&b, "(\"%s\", %s)", strings.ToLower(sig), boolLean(connectorCrossUnwrapped(conn, sig)))
	}
	b.WriteString("]\n\n")
	b.WriteString("/-- per signal: `capabilityconsumer.New<Sig>(x, c)` is `x` itself when `x.Capabilities() == c`, else a wrapper whose `Capabilities()` is `c` -/\n")
	b.WriteString("def capConsumerAdvertisesRequested : List (String × Bool) := [")
	for i, sig := range sigs {
		if i > 0 {
			b.WriteString(", ")
		}
		fmt.Fprintf(&b, "(\"%s\", %s)", strings.ToLower(sig), boolLean(capConsumerOK(cc, sig)))
	}
	b.WriteString("]\n\n")
	fmt.Fprintf(&b, "/-- `consumer/internal` `NewBaseImpl`: capability before any option; options are applied in order, `WithCapabilities` overwrites -/\ndef consumerDefaultMutates : Bool := %s\n\n", consumerDefault(repo))
	fmt.Fprintf(&b, "/-- `processorhelper.fromOptions`: declarations the helper puts BEFORE the processor's own (its `WithCapabilities` appends) -/\ndef processorHelperDefaults : List Bool := %s\n\n",
		processorHelper(filepath.Join(repo, "processor", "processorhelper", "processor.go")))
	fmt.Fprintf(&b, "/-- the same for `xprocessorhelper` (profiles) -/\ndef xprocessorHelperDefaults : List Bool := %s\n\n",
		processorHelper(filepath.Join(repo, "processor", "processorhelper", "xprocessorhelper", "processor.go")))
	lit, cond := exporterHelper(repo)
	fmt.Fprintf(&b, "/-- `exporterhelper/internal.NewBaseExporter`: the declaration appended AFTER the exporter's own options when it batches -/\ndef exporterBatchingDeclares : Bool := %s\n\n", lit)
	fmt.Fprintf(&b, "/-- … and the condition under which it is appended -/\ndef exporterBatchingCond : String := %q\n\n", cond)
	fmt.Fprintf(&b, "/-- per signal: the `Consumer(ids…)` that applies to the signal's connector router (its own method, or the embedded\n`internal.BaseRouter[T].Consumer`) and the router's constructor -/\ndef routers : List (String × Route) :=\n  %s\n\n", translateRouters(repo))
	b.WriteString("end OtelVerif.Gen.FanoutShape\n")
	fmt.Print(b.String())
}
