// gofunlean compiles a small, whitelisted subset of Go (straight-line code: if / else, switch-on-value, define /
// assign, return, a handful of recognised calls) into Lean 4 *definitions*, so that the functions the C18 and C05
// models describe are REGENERATED from /repo on every run and the models are proved equal to them.
//
//	go run ./cmd/gofunlean <repo> c18   -> lean/OtelVerif/Gen/MemLimiter.lean
//	go run ./cmd/gofunlean <repo> c05   -> lean/OtelVerif/Gen/RetryCfg.lean
//
// Statements are compiled in continuation-passing style: `if c {A}; rest` becomes `if c then [A; rest] else [rest]`
// (no loops, so this terminates). Anything outside the subset makes the program exit 2 ("source no longer has the
// expected shape"). Stdlib only.
package main

import (
	"fmt"
	"go/ast"
	"go/parser"
	"go/token"
	"math/big"
	"os"
	"path/filepath"
	"regexp"
	"strconv"
	"strings"
)

func die(format string, a ...any) {
	fmt.Fprintf(os.Stderr, "gofunlean: "+format+"\n", a...)
	os.Exit(2)
}

var fset = token.NewFileSet()

func parse(path string) *ast.File {
	f, err := parser.ParseFile(fset, path, nil, 0)
	if err != nil {
		die("%v", err)
	}
	return f
}

func pos(n ast.Node) string { return fset.Position(n.Pos()).String() }

// ---------------------------------------------------------------------------------------------------------------
// kinds

type kind string

const (
	kInt   kind = "Int"  // time.Duration, time instants (ns), int
	kU64   kind = "U64"  // uint64 (Nat, wrap-around written out)
	kU32   kind = "U32"  // uint32 (Nat)
	kBool  kind = "Bool" // bool; also "pointer is non-nil", "err != nil"
	kFrac  kind = "Frac" // float64 as an exact fraction
	kConst kind = "?"    // untyped integer constant
	kErr   kind = "Err"  // error value as an index (0 = nil)
	kCode  kind = "Code" // grpc codes.Code (Nat)
	kUnit  kind = "Unit"
)

func (k kind) lean() string {
	switch k {
	case kInt:
		return "Int"
	case kU64, kU32, kErr, kCode:
		return "Nat"
	case kBool:
		return "Bool"
	case kFrac:
		return "Frac"
	case kUnit:
		return "Unit"
	}
	if strings.HasPrefix(string(k), "S:") {
		return string(k)[2:]
	}
	if strings.HasPrefix(string(k), "O:") { // (x, error) pair -> Option
		return "Option " + string(k)[2:]
	}
	die("no Lean type for kind %q", k)
	return ""
}

func zero(k kind, c *comp) string {
	switch k {
	case kInt, kU64, kU32, kErr, kCode:
		return "0"
	case kBool:
		return "false"
	case kFrac:
		return "⟨0, 1⟩"
	}
	if strings.HasPrefix(string(k), "S:") {
		return c.structZero(string(k)[2:])
	}
	die("no zero for kind %q", k)
	return ""
}

type field struct {
	name string
	k    kind
}

type fsig struct {
	lean    string // Lean name
	recv    bool
	params  []kind // kinds of the kept parameters (receiver first)
	ret     kind
	effect  bool // threads the World
	nparams int  // number of Go parameters (without receiver)
	keep    []bool
}

type comp struct {
	structs  map[string][]field
	sorder   []string
	consts   map[string]string // Go const name -> Lean expr
	ckind    map[string]kind
	errIdx   map[string]int // package-level error variable -> index
	errNames []string
	errMsgs  []string
	funcs    map[string]*fsig // "Recv.Name" or "Name"
	typeKind func(e ast.Expr) kind
	// per function
	vars     map[string]kind
	recvName string
	cur      *fsig
	inlineE  []string // messages of errors.New(...) inside the current function, in order
	out      strings.Builder
}

func newComp() *comp {
	return &comp{structs: map[string][]field{}, consts: map[string]string{}, ckind: map[string]kind{}, errIdx: map[string]int{},
		funcs: map[string]*fsig{}}
}

func (c *comp) structZero(name string) string {
	fs, ok := c.structs[name]
	if !ok {
		die("unknown struct %s", name)
	}
	var parts []string
	for _, f := range fs {
		parts = append(parts, f.name+" := "+zero(f.k, c))
	}
	return "{ " + strings.Join(parts, ", ") + " }"
}

func sel(e ast.Expr) (string, string, bool) {
	s, ok := e.(*ast.SelectorExpr)
	if !ok {
		return "", "", false
	}
	x, ok := s.X.(*ast.Ident)
	if !ok {
		return "", "", false
	}
	return x.Name, s.Sel.Name, true
}

// defaultTypeKind maps a Go type expression to a kind
func (c *comp) defaultTypeKind(e ast.Expr) kind {
	switch t := e.(type) {
	case *ast.Ident:
		switch t.Name {
		case "uint64":
			return kU64
		case "uint32":
			return kU32
		case "bool":
			return kBool
		case "float64":
			return kFrac
		case "int", "int64":
			return kInt
		case "error":
			return kErr
		}
		if _, ok := c.structs[t.Name]; ok {
			return kind("S:" + t.Name)
		}
	case *ast.StarExpr:
		if p, n, ok := sel(t.X); ok && p == "runtime" && n == "MemStats" {
			return kU64 // only .Alloc is ever read: the reading itself
		}
		if p, n, ok := sel(t.X); ok && p == "errdetails" && n == "RetryInfo" {
			return kBool // non-nil
		}
		return c.defaultTypeKind(t.X)
	case *ast.SelectorExpr:
		if p, n, ok := sel(t); ok {
			switch p + "." + n {
			case "time.Duration", "time.Time":
				return kInt
			case "codes.Code":
				return kCode
			}
		}
	case *ast.StructType:
		if t.Fields == nil || len(t.Fields.List) == 0 {
			return kUnit
		}
	}
	die("%s: unsupported type %T", pos(e), e)
	return ""
}

func (c *comp) addStruct(f *ast.File, name string, skip map[string]bool) {
	for _, d := range f.Decls {
		gd, ok := d.(*ast.GenDecl)
		if !ok || gd.Tok != token.TYPE {
			continue
		}
		for _, s := range gd.Specs {
			ts := s.(*ast.TypeSpec)
			if ts.Name.Name != name {
				continue
			}
			st, ok := ts.Type.(*ast.StructType)
			if !ok {
				die("%s is not a struct", name)
			}
			var fs []field
			for _, fl := range st.Fields.List {
				for _, n := range fl.Names {
					if skip[n.Name] || n.Name == "_" {
						continue
					}
					fs = append(fs, field{n.Name, c.defaultTypeKind(fl.Type)})
				}
			}
			c.structs[name] = fs
			c.sorder = append(c.sorder, name)
			return
		}
	}
	die("struct %s not found", name)
}

func (c *comp) emitStruct(name string) {
	fmt.Fprintf(&c.out, "structure %s where\n", name)
	for _, f := range c.structs[name] {
		fmt.Fprintf(&c.out, "  %s : %s\n", f.name, f.k.lean())
	}
	fmt.Fprintf(&c.out, "deriving Repr, DecidableEq\n\n")
}

// constant folding of integer constant expressions (1024 * 1024, 10 * time.Second, ...)
var timeUnits = map[string]int64{"Nanosecond": 1, "Microsecond": 1e3, "Millisecond": 1e6, "Second": 1e9, "Minute": 60e9, "Hour": 3600e9}

func (c *comp) fold(e ast.Expr) (*big.Int, kind, bool) {
	switch x := e.(type) {
	case *ast.BasicLit:
		if x.Kind == token.INT {
			v, ok := new(big.Int).SetString(x.Value, 0)
			return v, kConst, ok
		}
	case *ast.ParenExpr:
		return c.fold(x.X)
	case *ast.SelectorExpr:
		if p, n, ok := sel(x); ok && p == "time" {
			if u, ok := timeUnits[n]; ok {
				return big.NewInt(u), kInt, true
			}
		}
	case *ast.BinaryExpr:
		a, ka, ok1 := c.fold(x.X)
		b, kb, ok2 := c.fold(x.Y)
		if !ok1 || !ok2 {
			return nil, "", false
		}
		k := ka
		if k == kConst {
			k = kb
		}
		r := new(big.Int)
		switch x.Op {
		case token.MUL:
			r.Mul(a, b)
		case token.ADD:
			r.Add(a, b)
		case token.SUB:
			r.Sub(a, b)
		default:
			return nil, "", false
		}
		return r, k, true
	}
	return nil, "", false
}

func (c *comp) addConsts(f *ast.File, names ...string) {
	want := map[string]bool{}
	for _, n := range names {
		want[n] = true
	}
	for _, d := range f.Decls {
		gd, ok := d.(*ast.GenDecl)
		if !ok || gd.Tok != token.CONST {
			continue
		}
		for _, s := range gd.Specs {
			vs := s.(*ast.ValueSpec)
			for i, n := range vs.Names {
				if !want[n.Name] {
					continue
				}
				v, _, ok := c.fold(vs.Values[i])
				if !ok {
					die("%s: constant %s is not a foldable integer expression", pos(vs), n.Name)
				}
				c.consts[n.Name] = v.String()
				c.ckind[n.Name] = kConst
				fmt.Fprintf(&c.out, "/-- const `%s` -/\ndef %s : Nat := %s\n\n", n.Name, n.Name, v.String())
				delete(want, n.Name)
			}
		}
	}
	for n := range want {
		die("constant %s not found", n)
	}
}

// package-level `errX = errors.New("...")` variables, in declaration order
func (c *comp) addErrVars(f *ast.File) {
	for _, d := range f.Decls {
		gd, ok := d.(*ast.GenDecl)
		if !ok || gd.Tok != token.VAR {
			continue
		}
		for _, s := range gd.Specs {
			vs := s.(*ast.ValueSpec)
			for i, n := range vs.Names {
				if i >= len(vs.Values) {
					continue
				}
				call, ok := vs.Values[i].(*ast.CallExpr)
				if !ok {
					continue
				}
				if p, fn, ok := sel(call.Fun); !ok || p != "errors" || fn != "New" {
					continue
				}
				lit, ok := call.Args[0].(*ast.BasicLit)
				if !ok {
					die("%s: errors.New without a literal", pos(call))
				}
				c.errNames = append(c.errNames, n.Name)
				msg, _ := strconv.Unquote(lit.Value)
				c.errMsgs = append(c.errMsgs, msg)
				c.errIdx[n.Name] = len(c.errNames)
			}
		}
	}
}

func leanStr(s string) string {
	return "\"" + strings.ReplaceAll(strings.ReplaceAll(s, "\\", "\\\\"), "\"", "\\\"") + "\""
}

func leanStrList(l []string) string {
	var q []string
	for _, s := range l {
		q = append(q, leanStr(s))
	}
	return "[" + strings.Join(q, ", ") + "]"
}

// ---------------------------------------------------------------------------------------------------------------
// expressions

func paren(s string) string {
	if regexp.MustCompile(`^[A-Za-z0-9_.']+$`).MatchString(s) {
		return s
	}
	return "(" + s + ")"
}

func isLoggerCall(e ast.Expr) bool {
	call, ok := e.(*ast.CallExpr)
	if !ok {
		return false
	}
	s, ok := call.Fun.(*ast.SelectorExpr)
	if !ok {
		return false
	}
	switch s.Sel.Name {
	case "Debug", "Info", "Warn", "Error":
	default:
		return false
	}
	switch x := s.X.(type) {
	case *ast.Ident:
		return x.Name == "logger"
	case *ast.SelectorExpr:
		return x.Sel.Name == "logger" || x.Sel.Name == "Logger"
	}
	return false
}

func (c *comp) unify(a, b kind, n ast.Node) kind {
	if a == kConst {
		return b
	}
	if b == kConst {
		return a
	}
	if a == b {
		return a
	}
	if (a == kU32 && b == kU64) || (a == kU64 && b == kU32) {
		die("%s: mixed uint32/uint64 operands", pos(n))
	}
	die("%s: operands of kinds %s and %s", pos(n), a, b)
	return ""
}

var grpcCodes = map[string]int{"OK": 0, "Canceled": 1, "Unknown": 2, "InvalidArgument": 3, "DeadlineExceeded": 4, "NotFound": 5,
	"AlreadyExists": 6, "PermissionDenied": 7, "ResourceExhausted": 8, "FailedPrecondition": 9, "Aborted": 10, "OutOfRange": 11,
	"Unimplemented": 12, "Internal": 13, "Unavailable": 14, "DataLoss": 15, "Unauthenticated": 16}

// libConst resolves a constant of a third-party package (set per mode)
var libConst = map[string]func() (string, kind){}

func (c *comp) expr(e ast.Expr) (string, kind) {
	if v, k, ok := c.fold(e); ok {
		if v.Sign() < 0 {
			return "(" + v.String() + ")", k
		}
		return v.String(), k
	}
	switch x := e.(type) {
	case *ast.ParenExpr:
		s, k := c.expr(x.X)
		return paren(s), k
	case *ast.Ident:
		switch x.Name {
		case "true", "false":
			return x.Name, kBool
		case "nil":
			return "0", kErr
		}
		if k, ok := c.vars[x.Name]; ok {
			return x.Name, k
		}
		if _, ok := c.consts[x.Name]; ok {
			return x.Name, kConst
		}
		if i, ok := c.errIdx[x.Name]; ok {
			return strconv.Itoa(i), kErr
		}
		die("%s: unknown identifier %s", pos(x), x.Name)
	case *ast.SelectorExpr:
		if p, n, ok := sel(x); ok {
			if p == "codes" {
				v, ok := grpcCodes[n]
				if !ok {
					die("%s: unknown grpc code %s", pos(x), n)
				}
				return strconv.Itoa(v), kCode
			}
			if f, ok := libConst[p+"."+n]; ok {
				return f()
			}
			if p == c.recvName && n == "lastGCDone" && c.cur.effect {
				return "w.lastGCDone", kInt
			}
			if k, ok := c.vars[p]; ok {
				if k == kU64 && n == "Alloc" { // *runtime.MemStats
					return p, kU64
				}
				if strings.HasPrefix(string(k), "S:") {
					for _, f := range c.structs[string(k)[2:]] {
						if f.name == n {
							return p + "." + n, f.k
						}
					}
				}
				die("%s: no field %s.%s", pos(x), p, n)
			}
		}
		// ml.usageChecker.x style: nested
		if inner, ok := x.X.(*ast.SelectorExpr); ok {
			s, k := c.expr(inner)
			if strings.HasPrefix(string(k), "S:") {
				for _, f := range c.structs[string(k)[2:]] {
					if f.name == x.Sel.Name {
						return s + "." + x.Sel.Name, f.k
					}
				}
			}
		}
		die("%s: unsupported selector", pos(x))
	case *ast.UnaryExpr:
		switch x.Op {
		case token.NOT:
			s, k := c.expr(x.X)
			if k != kBool {
				die("%s: ! on %s", pos(x), k)
			}
			return "!" + paren(s), kBool
		case token.AND:
			return c.expr(x.X)
		}
		die("%s: unsupported unary %s", pos(x), x.Op)
	case *ast.CompositeLit:
		var name string
		switch t := x.Type.(type) {
		case *ast.Ident:
			name = t.Name
		default:
			die("%s: unsupported composite literal type", pos(x))
		}
		fs, ok := c.structs[name]
		if !ok {
			die("%s: unknown struct %s", pos(x), name)
		}
		given := map[string]string{}
		for _, el := range x.Elts {
			kv, ok := el.(*ast.KeyValueExpr)
			if !ok {
				die("%s: unkeyed literal", pos(x))
			}
			key := kv.Key.(*ast.Ident).Name
			var fk kind
			found := false
			for _, f := range fs {
				if f.name == key {
					fk, found = f.k, true
				}
			}
			if !found {
				die("%s: literal sets unknown field %s.%s", pos(kv), name, key)
			}
			s, k := c.expr(kv.Value)
			c.unify(k, fk, kv)
			given[key] = s
		}
		var parts []string
		for _, f := range fs {
			if s, ok := given[f.name]; ok {
				parts = append(parts, f.name+" := "+s)
			} else {
				parts = append(parts, f.name+" := "+zero(f.k, c))
			}
		}
		return "({ " + strings.Join(parts, ", ") + " } : " + name + ")", kind("S:" + name)
	case *ast.CallExpr:
		return c.call(x)
	case *ast.BinaryExpr:
		switch x.Op {
		case token.LAND, token.LOR:
			a, ka := c.expr(x.X)
			b, kb := c.expr(x.Y)
			if ka != kBool || kb != kBool {
				die("%s: && / || on non-bool", pos(x))
			}
			op := " && "
			if x.Op == token.LOR {
				op = " || "
			}
			return paren(a) + op + paren(b), kBool
		case token.EQL, token.NEQ, token.LSS, token.LEQ, token.GTR, token.GEQ:
			// pointer / error compared with nil
			if id, ok := x.Y.(*ast.Ident); ok && id.Name == "nil" {
				a, ka := c.expr(x.X)
				if ka == kBool { // pointer modelled as "is non-nil"
					if x.Op == token.NEQ {
						return a, kBool
					}
					return "!" + paren(a), kBool
				}
				if ka == kErr {
					if x.Op == token.NEQ {
						return "decide (" + a + " ≠ 0)", kBool
					}
					return "decide (" + a + " = 0)", kBool
				}
				die("%s: nil comparison on %s", pos(x), ka)
			}
			a, ka := c.expr(x.X)
			b, kb := c.expr(x.Y)
			k := c.unify(ka, kb, x)
			op := map[token.Token]string{token.EQL: "=", token.NEQ: "≠", token.LSS: "<", token.LEQ: "≤", token.GTR: ">", token.GEQ: "≥"}[x.Op]
			if k == kFrac {
				// float compared with an integer constant n: num ? n * den
				if kb != kConst {
					die("%s: float compared with a non-constant", pos(x))
				}
				return "decide (" + paren(a) + ".num " + op + " " + paren(b) + " * (" + paren(a) + ".den : Int))", kBool
			}
			if k == kBool {
				die("%s: comparison of bools", pos(x))
			}
			return "decide (" + paren(a) + " " + op + " " + paren(b) + ")", kBool
		case token.ADD, token.SUB, token.MUL, token.QUO, token.REM:
			a, ka := c.expr(x.X)
			b, kb := c.expr(x.Y)
			k := c.unify(ka, kb, x)
			switch k {
			case kU64:
				fn := map[token.Token]string{token.ADD: "u64add", token.SUB: "u64sub", token.MUL: "u64mul", token.QUO: "u64div", token.REM: "u64mod"}[x.Op]
				return fn + " " + paren(a) + " " + paren(b), kU64
			case kInt:
				if x.Op == token.QUO || x.Op == token.REM {
					die("%s: Duration division not supported", pos(x))
				}
				op := map[token.Token]string{token.ADD: "+", token.SUB: "-", token.MUL: "*"}[x.Op]
				return paren(a) + " " + op + " " + paren(b), kInt
			}
			die("%s: arithmetic on %s", pos(x), k)
		}
		die("%s: unsupported operator %s", pos(x), x.Op)
	}
	die("%s: unsupported expression %T", pos(e), e)
	return "", ""
}

func (c *comp) call(x *ast.CallExpr) (string, kind) {
	// conversions
	if id, ok := x.Fun.(*ast.Ident); ok {
		switch id.Name {
		case "uint64":
			s, k := c.expr(x.Args[0])
			if k != kU32 && k != kU64 && k != kConst {
				die("%s: uint64(%s)", pos(x), k)
			}
			return s, kU64
		}
		if fs, ok := c.funcs[id.Name]; ok {
			return c.apply(fs, nil, x)
		}
		die("%s: call of unknown function %s", pos(x), id.Name)
	}
	if s, ok := x.Fun.(*ast.SelectorExpr); ok {
		if p, n, ok := sel(s); ok {
			switch p + "." + n {
			case "time.Since":
				a, k := c.expr(x.Args[0])
				if k != kInt || !c.cur.effect {
					die("%s: time.Since", pos(x))
				}
				return "w.now - " + paren(a), kInt
			case "time.Now":
				if !c.cur.effect {
					die("%s: time.Now outside an effectful function", pos(x))
				}
				return "w.now", kInt
			case "errors.New":
				lit, ok := x.Args[0].(*ast.BasicLit)
				if !ok {
					die("%s: errors.New without a literal", pos(x))
				}
				msg, _ := strconv.Unquote(lit.Value)
				c.inlineE = append(c.inlineE, msg)
				return strconv.Itoa(len(c.inlineE)), kErr
			}
		}
		// ml.mustRefuse.Load()
		if inner, ok := s.X.(*ast.SelectorExpr); ok && s.Sel.Name == "Load" {
			if r, f, ok := sel(inner); ok && r == c.recvName && f == "mustRefuse" && c.cur.effect {
				return "w.mustRefuse", kBool
			}
		}
		// method call recv.method(args) on a translated method
		if fs, ok := c.funcs["."+s.Sel.Name]; ok {
			return c.apply(fs, s.X, x)
		}
	}
	die("%s: unsupported call", pos(x))
	return "", ""
}

func (c *comp) apply(fs *fsig, recv ast.Expr, x *ast.CallExpr) (string, kind) {
	if fs.effect {
		die("%s: effectful call inside an expression", pos(x))
	}
	var args []string
	if fs.recv {
		s, _ := c.expr(recv)
		args = append(args, paren(s))
	}
	if len(x.Args) != fs.nparams {
		die("%s: %s called with %d arguments, declared %d", pos(x), fs.lean, len(x.Args), fs.nparams)
	}
	for i, a := range x.Args {
		if !fs.keep[i] {
			continue
		}
		s, _ := c.expr(a)
		args = append(args, paren(s))
	}
	return fs.lean + " " + strings.Join(args, " "), fs.ret
}

// ---------------------------------------------------------------------------------------------------------------
// statements (CPS)

// ret renders the value a function returns when control reaches `return e...`
func (c *comp) retValue(r *ast.ReturnStmt) string {
	wrap := func(s string) string {
		if c.cur.effect {
			if c.cur.ret == kUnit {
				return "w"
			}
			return "(w, " + s + ")"
		}
		return s
	}
	switch len(r.Results) {
	case 0:
		return wrap("()")
	case 1:
		s, k := c.expr(r.Results[0])
		if c.cur.ret == kErr && k != kErr {
			die("%s: returns %s, want error", pos(r), k)
		}
		return wrap(s)
	case 2:
		if !strings.HasPrefix(string(c.cur.ret), "O:") {
			die("%s: two results", pos(r))
		}
		if id, ok := r.Results[0].(*ast.Ident); ok && id.Name == "nil" {
			return wrap("none")
		}
		if id, ok := r.Results[1].(*ast.Ident); !ok || id.Name != "nil" {
			die("%s: (value, non-nil error) return", pos(r))
		}
		s, _ := c.expr(r.Results[0])
		return wrap("some " + paren(s))
	}
	die("%s: unsupported return", pos(r))
	return ""
}

func ind(n int) string { return strings.Repeat("  ", n) }

// terminates reports whether the statement list always returns
func terminates(l []ast.Stmt) bool {
	if len(l) == 0 {
		return false
	}
	switch s := l[len(l)-1].(type) {
	case *ast.ReturnStmt:
		return true
	case *ast.IfStmt:
		if s.Else == nil {
			return false
		}
		eb, ok := s.Else.(*ast.BlockStmt)
		if !ok {
			return terminates([]ast.Stmt{s.Else})
		}
		return terminates(s.Body.List) && terminates(eb.List)
	}
	return false
}

// onlyLogging: the block has no effect in the model
func onlyLogging(l []ast.Stmt) bool {
	for _, s := range l {
		es, ok := s.(*ast.ExprStmt)
		if !ok || !isLoggerCall(es.X) {
			return false
		}
	}
	return true
}

func (c *comp) stmts(l []ast.Stmt, d int) string {
	if len(l) == 0 {
		// fell off the end of the function body
		if c.cur.effect && c.cur.ret == kUnit {
			return ind(d) + "w"
		}
		die("function %s: control reaches the end without a return", c.cur.lean)
	}
	rest := l[1:]
	switch s := l[0].(type) {
	case *ast.ReturnStmt:
		return ind(d) + c.retValue(s)
	case *ast.ExprStmt:
		if isLoggerCall(s.X) {
			return c.stmts(rest, d)
		}
		call, ok := s.X.(*ast.CallExpr)
		if ok {
			if fs, ok := call.Fun.(*ast.SelectorExpr); ok {
				if inner, ok := fs.X.(*ast.SelectorExpr); ok && fs.Sel.Name == "Store" {
					if r, f, ok := sel(inner); ok && r == c.recvName && f == "mustRefuse" && c.cur.effect {
						v, k := c.expr(call.Args[0])
						if k != kBool {
							die("%s: Store(%s)", pos(s), k)
						}
						return ind(d) + "let w := { w with mustRefuse := " + v + " }\n" + c.stmts(rest, d)
					}
				}
				if r, f, ok := sel(fs); ok && r == c.recvName && f == "runGCFn" && c.cur.effect {
					return ind(d) + "let w := runGC w\n" + c.stmts(rest, d)
				}
			}
		}
		die("%s: unsupported expression statement", pos(s))
	case *ast.DeclStmt:
		die("%s: unsupported declaration", pos(s))
	case *ast.AssignStmt:
		if len(s.Lhs) == 2 && len(s.Rhs) == 1 {
			// totalMemory, err := GetMemoryFn()
			call, ok := s.Rhs[0].(*ast.CallExpr)
			if ok {
				if id, ok := call.Fun.(*ast.Ident); ok && id.Name == "GetMemoryFn" && s.Tok == token.DEFINE {
					v, e := s.Lhs[0].(*ast.Ident).Name, s.Lhs[1].(*ast.Ident).Name
					c.vars[v], c.vars[e] = kU64, kErr
					return ind(d) + "let " + v + " : Nat := getMemory.getD 0\n" + ind(d) + "let " + e + " : Nat := if getMemory.isNone then 1 else 0\n" + c.stmts(rest, d)
				}
			}
			die("%s: unsupported two-value assignment", pos(s))
		}
		if len(s.Lhs) != 1 || len(s.Rhs) != 1 {
			die("%s: unsupported assignment", pos(s))
		}
		// effectful calls: x := ml.readMemStats() / x = ml.doGCandReadMemStats()
		if call, ok := s.Rhs[0].(*ast.CallExpr); ok {
			if fsel, ok := call.Fun.(*ast.SelectorExpr); ok {
				if r, ok := fsel.X.(*ast.Ident); ok && r.Name == c.recvName {
					if fsel.Sel.Name == "readMemStats" && c.cur.effect && len(call.Args) == 0 {
						id := s.Lhs[0].(*ast.Ident).Name
						c.vars[id] = kU64
						return ind(d) + "let r := readMemStats w\n" + ind(d) + "let w := r.1\n" + ind(d) + "let " + id + " := r.2\n" + c.stmts(rest, d)
					}
					if fs, ok := c.funcs["."+fsel.Sel.Name]; ok && fs.effect && c.cur.effect && len(call.Args) == 0 {
						id := s.Lhs[0].(*ast.Ident).Name
						c.vars[id] = fs.ret
						return ind(d) + "let r := " + fs.lean + " " + c.recvName + " w\n" + ind(d) + "let w := r.1\n" + ind(d) + "let " + id + " := r.2\n" + c.stmts(rest, d)
					}
				}
			}
		}
		switch lhs := s.Lhs[0].(type) {
		case *ast.Ident:
			v, k := c.expr(s.Rhs[0])
			if s.Tok == token.DEFINE {
				c.vars[lhs.Name] = k
			} else if s.Tok == token.ASSIGN {
				old, ok := c.vars[lhs.Name]
				if !ok {
					die("%s: assignment to unknown %s", pos(s), lhs.Name)
				}
				c.unify(old, k, s)
			} else {
				die("%s: unsupported assignment operator", pos(s))
			}
			return ind(d) + "let " + lhs.Name + " := " + v + "\n" + c.stmts(rest, d)
		case *ast.SelectorExpr:
			if r, f, ok := sel(lhs); ok && r == c.recvName && f == "lastGCDone" && c.cur.effect && s.Tok == token.ASSIGN {
				v, k := c.expr(s.Rhs[0])
				if k != kInt {
					die("%s: lastGCDone = %s", pos(s), k)
				}
				return ind(d) + "let w := { w with lastGCDone := " + v + " }\n" + c.stmts(rest, d)
			}
		}
		die("%s: unsupported assignment target", pos(s))
	case *ast.IfStmt:
		if s.Init != nil {
			die("%s: if with init", pos(s))
		}
		var elseL []ast.Stmt
		if s.Else != nil {
			if eb, ok := s.Else.(*ast.BlockStmt); ok {
				elseL = eb.List
			} else {
				elseL = []ast.Stmt{s.Else}
			}
		}
		if onlyLogging(s.Body.List) && onlyLogging(elseL) {
			// the condition has no side effect in the subset (expr() accepts pure expressions only): check it, then drop
			c.expr(s.Cond)
			return c.stmts(rest, d)
		}
		cond, k := c.expr(s.Cond)
		if k != kBool {
			die("%s: condition of kind %s", pos(s), k)
		}
		save := c.snapshot()
		thenS := c.stmts(append(append([]ast.Stmt{}, s.Body.List...), contIf(s.Body.List, rest)...), d+1)
		c.restore(save)
		elseS := c.stmts(append(append([]ast.Stmt{}, elseL...), contIf(elseL, rest)...), d+1)
		c.restore(save)
		return ind(d) + "if " + cond + " then\n" + thenS + "\n" + ind(d) + "else\n" + elseS
	case *ast.SwitchStmt:
		if s.Init != nil || s.Tag == nil {
			die("%s: unsupported switch", pos(s))
		}
		tag, tk := c.expr(s.Tag)
		var out strings.Builder
		var deflt []ast.Stmt
		hasDefault := false
		n := 0
		for _, cl := range s.Body.List {
			cc := cl.(*ast.CaseClause)
			for _, st := range cc.Body {
				if b, ok := st.(*ast.BranchStmt); ok {
					die("%s: %s inside switch", pos(b), b.Tok)
				}
			}
			if cc.List == nil {
				hasDefault, deflt = true, cc.Body
				continue
			}
			var alts []string
			for _, v := range cc.List {
				vs, vk := c.expr(v)
				c.unify(tk, vk, v)
				alts = append(alts, "decide ("+paren(tag)+" = "+vs+")")
			}
			save := c.snapshot()
			body := c.stmts(append(append([]ast.Stmt{}, cc.Body...), contIf(cc.Body, rest)...), d+n+1)
			c.restore(save)
			out.WriteString(ind(d+n) + "if " + strings.Join(alts, " || ") + " then\n" + body + "\n" + ind(d+n) + "else\n")
			n++
		}
		_ = hasDefault
		out.WriteString(c.stmts(append(append([]ast.Stmt{}, deflt...), contIf(deflt, rest)...), d+n))
		return out.String()
	}
	die("%s: unsupported statement %T", pos(l[0]), l[0])
	return ""
}

func contIf(body, rest []ast.Stmt) []ast.Stmt {
	if terminates(body) {
		return nil
	}
	return rest
}

func (c *comp) snapshot() map[string]kind {
	m := map[string]kind{}
	for k, v := range c.vars {
		m[k] = v
	}
	return m
}
func (c *comp) restore(m map[string]kind) {
	c.vars = map[string]kind{}
	for k, v := range m {
		c.vars[k] = v
	}
}

// ---------------------------------------------------------------------------------------------------------------
// functions

type fopt struct {
	leanName string
	effect   bool
	ret      kind            // "" = derive from the result list
	drop     map[string]bool // parameters left out (loggers)
	extra    string          // extra Lean binders (e.g. getMemory)
	doc      string
}

func hasFunc(f *ast.File, name string) bool {
	for _, d := range f.Decls {
		if fd, ok := d.(*ast.FuncDecl); ok && fd.Recv == nil && fd.Name.Name == name {
			return true
		}
	}
	return false
}

func findFunc(f *ast.File, recv, name string) *ast.FuncDecl {
	for _, d := range f.Decls {
		fd, ok := d.(*ast.FuncDecl)
		if !ok || fd.Name.Name != name {
			continue
		}
		r := ""
		if fd.Recv != nil && len(fd.Recv.List) == 1 {
			t := fd.Recv.List[0].Type
			if st, ok := t.(*ast.StarExpr); ok {
				t = st.X
			}
			if ix, ok := t.(*ast.IndexExpr); ok {
				t = ix.X
			}
			if id, ok := t.(*ast.Ident); ok {
				r = id.Name
			}
		}
		if r == recv {
			return fd
		}
	}
	die("function %s.%s not found", recv, name)
	return nil
}

func (c *comp) fun(f *ast.File, recv, name string, o fopt) {
	fd := findFunc(f, recv, name)
	fs := &fsig{lean: o.leanName, effect: o.effect, recv: recv != ""}
	if fs.lean == "" {
		fs.lean = name
		if recv != "" { // methods get their qualified name: locals of the same name (aboveSoftLimit) must not shadow them
			fs.lean = recv + "." + name
		}
	}
	c.vars = map[string]kind{}
	c.inlineE = nil
	c.recvName = ""
	var binders []string
	if recv != "" {
		rl := fd.Recv.List[0]
		if len(rl.Names) == 1 {
			c.recvName = rl.Names[0].Name
		} else {
			c.recvName = "self"
		}
		rk := kind("S:" + recv)
		if _, ok := c.structs[recv]; !ok {
			die("receiver struct %s not translated", recv)
		}
		c.vars[c.recvName] = rk
		binders = append(binders, "("+c.recvName+" : "+rk.lean()+")")
		fs.params = append(fs.params, rk)
	}
	for _, p := range fd.Type.Params.List {
		for _, n := range p.Names {
			fs.nparams++
			if o.drop[n.Name] {
				fs.keep = append(fs.keep, false)
				continue
			}
			fs.keep = append(fs.keep, true)
			k := c.defaultTypeKind(p.Type)
			c.vars[n.Name] = k
			binders = append(binders, "("+n.Name+" : "+k.lean()+")")
			fs.params = append(fs.params, k)
		}
	}
	if o.extra != "" {
		binders = append(binders, o.extra)
	}
	if o.effect {
		binders = append(binders, "(w : World)")
	}
	switch {
	case o.ret != "":
		fs.ret = o.ret
	case fd.Type.Results == nil || len(fd.Type.Results.List) == 0:
		fs.ret = kUnit
	case len(fd.Type.Results.List) == 1:
		fs.ret = c.defaultTypeKind(fd.Type.Results.List[0].Type)
	case len(fd.Type.Results.List) == 2:
		fs.ret = kind("O:" + c.defaultTypeKind(fd.Type.Results.List[0].Type).lean())
	default:
		die("%s: unsupported result list", pos(fd))
	}
	retT := fs.ret.lean()
	if o.effect {
		if fs.ret == kUnit {
			retT = "World"
		} else {
			retT = "World × " + retT
		}
	}
	c.cur = fs
	body := c.stmts(fd.Body.List, 1)
	key := name
	if recv != "" {
		key = "." + name
	}
	c.funcs[key] = fs
	doc := o.doc
	if doc == "" {
		doc = "`" + name + "`"
		if recv != "" {
			doc = "`" + recv + "." + name + "`"
		}
	}
	fmt.Fprintf(&c.out, "/-- %s (%s) -/\ndef %s %s : %s :=\n%s\n\n", doc, relPos(fd), fs.lean, strings.Join(binders, " "), retT, body)
	if len(c.inlineE) > 0 {
		fmt.Fprintf(&c.out, "/-- messages of the `errors.New` values `%s` returns, in source order (index − 1) -/\ndef %s_errors : List String := %s\n\n",
			name, fs.lean, leanStrList(c.inlineE))
	}
}

var repoRoot string

func relPos(n ast.Node) string {
	p := fset.Position(n.Pos())
	r, err := filepath.Rel(repoRoot, p.Filename)
	if err != nil {
		r = p.Filename
	}
	if i := strings.Index(p.Filename, "/pkg/mod/"); i >= 0 && strings.HasPrefix(r, "..") { // a file of the module cache
		r = p.Filename[i+len("/pkg/mod/"):]
	}
	return r
}

// ---------------------------------------------------------------------------------------------------------------

const preludeU64 = `def W : Nat := 18446744073709551616  -- 2^64
/-- uint64 subtraction (operands below 2^64), by cases so that no kernel term ` + "`x + 2^64`" + ` has to be normalised -/
def u64sub (a b : Nat) : Nat := if b % W ≤ a then a - b % W else W - (b % W - a)
def u64add (a b : Nat) : Nat := (a + b) % W
def u64mul (a b : Nat) : Nat := (a * b) % W
def u64div (a b : Nat) : Nat := a / b
def u64mod (a b : Nat) : Nat := a % b

`

func header(mode string, srcs []string) string {
	return "/- GENERATED by /verif/translators/cmd/gofunlean (" + mode + ") from /repo — do not edit.\n   Sources: " + strings.Join(srcs, ", ") + " -/\nset_option linter.unusedVariables false\n"
}

func modeC18(repo string) {
	c := newComp()
	cfgF := parse(filepath.Join(repo, "internal/memorylimiter/config.go"))
	mlF := parse(filepath.Join(repo, "internal/memorylimiter/memorylimiter.go"))
	c.out.WriteString(header("c18", []string{"internal/memorylimiter/config.go", "internal/memorylimiter/memorylimiter.go",
		"internal/memorylimiter/iruntime/total_memory_linux.go", "processor/memorylimiterprocessor/memorylimiter.go", "processor/memorylimiterprocessor/obsreport.go"}))
	c.out.WriteString("namespace OtelVerif.Gen.MemLimiter\n\n")
	c.out.WriteString(preludeU64)
	c.addConsts(mlF, "mibBytes")
	c.addErrVars(cfgF)
	fmt.Fprintf(&c.out, "/-- the `errors.New` variables of config.go in declaration order; `Validate` returns index + 1 (0 = nil) -/\ndef errNames : List String := %s\ndef errMsgs : List String := %s\n\n",
		leanStrList(c.errNames), leanStrList(c.errMsgs))
	c.addStruct(cfgF, "Config", nil)
	c.emitStruct("Config")
	c.fun(cfgF, "", "NewDefaultConfig", fopt{})
	c.fun(cfgF, "Config", "Validate", fopt{leanName: "Config.Validate"})
	c.addStruct(mlF, "memUsageChecker", nil)
	c.emitStruct("memUsageChecker")
	c.fun(mlF, "memUsageChecker", "aboveSoftLimit", fopt{})
	c.fun(mlF, "memUsageChecker", "aboveHardLimit", fopt{})
	c.fun(mlF, "", "newFixedMemUsageChecker", fopt{})
	if hasFunc(mlF, "percentOf") { // helper introduced by the overflow repair; absent in the unrepaired source
		c.fun(mlF, "", "percentOf", fopt{})
	}
	c.fun(mlF, "", "newPercentageMemUsageChecker", fopt{})
	c.fun(mlF, "", "getMemUsageChecker", fopt{drop: map[string]bool{"logger": true}, extra: "(getMemory : Option Nat)",
		doc: "`getMemUsageChecker`; `getMemory` = result of `GetMemoryFn()` (`none` = it returned an error); result `none` = error"})
	// the limiter: immutable fields as a structure, the mutable ones + the outside world as World
	c.structs["MemoryLimiter"] = []field{{"usageChecker", "S:memUsageChecker"}, {"minGCIntervalWhenSoftLimited", kInt}, {"minGCIntervalWhenHardLimited", kInt}}
	checkFieldTypes(mlF, "MemoryLimiter", map[string]string{"usageChecker": "memUsageChecker", "minGCIntervalWhenSoftLimited": "time.Duration",
		"minGCIntervalWhenHardLimited": "time.Duration", "lastGCDone": "time.Time", "mustRefuse": "*atomic.Bool"})
	c.emitStruct("MemoryLimiter")
	c.out.WriteString(`/-- the mutable fields of the limiter and the world it acts on: ` + "`mustRefuse`, `lastGCDone`" + `; the virtual clock;
the values successive ` + "`readMemStatsFn`" + ` calls will report as ` + "`Alloc`" + `; how long ` + "`runGCFn`" + ` takes; calls made so far -/
structure World where
  mustRefuse : Bool
  lastGCDone : Int
  now : Int
  reads : List Nat
  gcDur : Int
  gcCalls : Nat := 0
  readCalls : Nat := 0
deriving Repr, DecidableEq

/-- primitive: ` + "`ml.readMemStats()`" + ` (allocates a MemStats, lets ` + "`readMemStatsFn`" + ` fill it; the code reads ` + "`.Alloc`" + ` only) -/
def readMemStats (w : World) : World × Nat := ({ w with reads := w.reads.tail, readCalls := w.readCalls + 1 }, w.reads.headD 0)
/-- primitive: ` + "`ml.runGCFn()`" + ` -/
def runGC (w : World) : World := { w with now := w.now + w.gcDur, gcCalls := w.gcCalls + 1 }

`)
	checkReadMemStats(mlF)
	c.fun(mlF, "MemoryLimiter", "doGCandReadMemStats", fopt{effect: true, ret: kU64})
	c.fun(mlF, "MemoryLimiter", "CheckMemLimits", fopt{effect: true})

	// iruntime.TotalMemory (linux)
	tmF := parse(filepath.Join(repo, "internal/memorylimiter/iruntime/total_memory_linux.go"))
	c.addConsts(tmF, "unlimitedMemorySize")
	totalMemoryShape(c, tmF)
	// the four process* functions of the processor
	processShape(c, parse(filepath.Join(repo, "processor/memorylimiterprocessor/memorylimiter.go")))
	obsreportShape(c, parse(filepath.Join(repo, "processor/memorylimiterprocessor/obsreport.go")))
	skeletonsC18(c, repo)
	c.out.WriteString("end OtelVerif.Gen.MemLimiter\n")
	fmt.Print(c.out.String())
}

func typeString(e ast.Expr) string {
	switch t := e.(type) {
	case *ast.Ident:
		return t.Name
	case *ast.StarExpr:
		return "*" + typeString(t.X)
	case *ast.SelectorExpr:
		return typeString(t.X) + "." + t.Sel.Name
	case *ast.IndexExpr:
		return typeString(t.X) + "[" + typeString(t.Index) + "]"
	case *ast.ArrayType:
		return "[]" + typeString(t.Elt)
	case *ast.FuncType:
		return "func"
	case *ast.ChanType:
		return "chan"
	}
	return fmt.Sprintf("%T", e)
}

func checkFieldTypes(f *ast.File, name string, want map[string]string) {
	for _, d := range f.Decls {
		gd, ok := d.(*ast.GenDecl)
		if !ok || gd.Tok != token.TYPE {
			continue
		}
		for _, s := range gd.Specs {
			ts := s.(*ast.TypeSpec)
			if ts.Name.Name != name {
				continue
			}
			st := ts.Type.(*ast.StructType)
			seen := map[string]bool{}
			for _, fl := range st.Fields.List {
				for _, n := range fl.Names {
					if w, ok := want[n.Name]; ok {
						if typeString(fl.Type) != w {
							die("%s.%s has type %s, expected %s", name, n.Name, typeString(fl.Type), w)
						}
						seen[n.Name] = true
					}
				}
			}
			for n := range want {
				if !seen[n] {
					die("%s has no field %s", name, n)
				}
			}
			return
		}
	}
	die("struct %s not found", name)
}

// readMemStats is a primitive of the generated code; make sure it still is what the primitive says
func checkReadMemStats(f *ast.File) {
	fd := findFunc(f, "MemoryLimiter", "readMemStats")
	ok := len(fd.Body.List) == 3
	if ok {
		a, ok1 := fd.Body.List[0].(*ast.AssignStmt)
		e, ok2 := fd.Body.List[1].(*ast.ExprStmt)
		r, ok3 := fd.Body.List[2].(*ast.ReturnStmt)
		ok = ok1 && ok2 && ok3
		if ok {
			u, isU := a.Rhs[0].(*ast.UnaryExpr)
			ok = isU && u.Op == token.AND
			if ok {
				cl, isC := u.X.(*ast.CompositeLit)
				ok = isC && typeString(cl.Type) == "runtime.MemStats" && len(cl.Elts) == 0
			}
			call, isCall := e.X.(*ast.CallExpr)
			ok = ok && isCall && typeString(call.Fun) == fd.Recv.List[0].Names[0].Name+".readMemStatsFn" && len(call.Args) == 1
			ok = ok && len(r.Results) == 1 && typeString(r.Results[0]) == typeString(a.Lhs[0])
			if ok {
				ok = typeString(call.Args[0]) == typeString(a.Lhs[0])
			}
		}
	}
	if !ok {
		die("MemoryLimiter.readMemStats is no longer `ms := &runtime.MemStats{}; ml.readMemStatsFn(ms); return ms`")
	}
}

// TotalMemory (linux): the decision after the cgroup reads, as a definition over the results of those reads.
// Shape checked: isV2/err; if isV2 {MemoryQuotaV2} else {NewCGroupsForCurrentProcess; MemoryQuota}; every err != nil returns (0, err);
// `if memoryQuota == unlimitedMemorySize || !defined { readMemInfo }`; `return uint64(memoryQuota), nil`.
func totalMemoryShape(c *comp, f *ast.File) {
	fd := findFunc(f, "", "TotalMemory")
	var last *ast.IfStmt
	for _, s := range fd.Body.List {
		if is, ok := s.(*ast.IfStmt); ok {
			last = is
		}
	}
	if last == nil {
		die("TotalMemory: no fallback if")
	}
	ret, ok := fd.Body.List[len(fd.Body.List)-1].(*ast.ReturnStmt)
	if !ok || len(ret.Results) != 2 || typeString(ret.Results[1]) != "nil" {
		die("TotalMemory: unexpected final return")
	}
	conv, ok := ret.Results[0].(*ast.CallExpr)
	if !ok || typeString(conv.Fun) != "uint64" || typeString(conv.Args[0]) != "memoryQuota" {
		die("TotalMemory: final return is not uint64(memoryQuota)")
	}
	// fallback body: totalMem, err := readMemInfo(); if err != nil { return 0, err }; return totalMem, nil
	if len(last.Body.List) != 3 {
		die("TotalMemory: unexpected fallback body")
	}
	as, ok := last.Body.List[0].(*ast.AssignStmt)
	if !ok || len(as.Rhs) != 1 || typeString(as.Rhs[0].(*ast.CallExpr).Fun) != "readMemInfo" {
		die("TotalMemory: fallback does not call readMemInfo")
	}
	c.vars = map[string]kind{"memoryQuota": kInt, "defined": kBool, "unlimitedMemorySize": kConst}
	c.cur = &fsig{lean: "TotalMemory"}
	cond, k := c.expr(last.Cond)
	if k != kBool {
		die("TotalMemory: fallback condition")
	}
	// count the `if err != nil { return 0, err }` guards before the fallback
	guards := 0
	ast.Inspect(fd.Body, func(n ast.Node) bool {
		if is, ok := n.(*ast.IfStmt); ok && is != last {
			if be, ok := is.Cond.(*ast.BinaryExpr); ok && typeString(be.X) == "err" && typeString(be.Y) == "nil" && be.Op == token.NEQ {
				if r, ok := is.Body.List[0].(*ast.ReturnStmt); ok && len(r.Results) == 2 && typeString(r.Results[1]) == "err" {
					guards++
				}
			}
		}
		return true
	})
	if guards != 5 {
		die("TotalMemory: expected 5 `if err != nil { return 0, err }` guards, found %d", guards)
	}
	fmt.Fprintf(&c.out, `/-- `+"`iruntime.TotalMemory`"+` (linux) after the cgroup reads (%s): `+"`quota`"+` = what `+"`MemoryQuotaV2` / `MemoryQuota`"+` returned
(`+"`none`"+` = one of the cgroup calls failed: the error is returned), `+"`memInfo`"+` = what `+"`readMemInfo`"+` returns (`+"`none`"+` = error).
Result `+"`none`"+` = error. `+"`uint64(memoryQuota)`"+` of a negative quota wraps. -/
def TotalMemory (quota : Option (Int × Bool)) (memInfo : Option Nat) : Option Nat :=
  match quota with
  | none => none
  | some (memoryQuota, defined) =>
    if %s then memInfo
    else some (memoryQuota %% (W : Int)).toNat

`, relPos(fd), cond)
}

// processor/memorylimiterprocessor/memorylimiter.go: the four process* functions must be
//
//	if p.memlimiter.MustRefuse() { [p.obsrep.refused(ctx, n)]; return x, memorylimiter.ErrDataRefused }
//	[p.obsrep.accepted(ctx, n)]; return x, nil
//
// Emits one row per signal: (function, counts items?, refused recorded?, accepted recorded?)
func processShape(c *comp, f *ast.File) {
	type row struct {
		fn, count    string
		refused, acc string
	}
	var rows []row
	for _, name := range []string{"processLogs", "processTraces", "processMetrics", "processProfiles"} {
		fd := findFunc(f, "memoryLimiterProcessor", name)
		data := fd.Type.Params.List[1].Names[0].Name
		r := row{fn: name}
		body := fd.Body.List
		countVar := ""
		// optional leading `numX := data.Count()`
		if as, ok := body[0].(*ast.AssignStmt); ok {
			call := as.Rhs[0].(*ast.CallExpr)
			s := call.Fun.(*ast.SelectorExpr)
			if typeString(s.X) != data {
				die("%s: count is not taken from the payload", name)
			}
			r.count = s.Sel.Name
			countVar = typeString(as.Lhs[0])
			body = body[1:]
		}
		sigArg := func(call *ast.CallExpr) string {
			a2 := ""
			if len(call.Args) == 3 {
				a2 = strings.TrimPrefix(strings.TrimPrefix(typeString(call.Args[2]), "x"), "pipeline.")
			}
			if len(call.Args) != 3 || typeString(call.Args[1]) != countVar || !strings.HasPrefix(a2, "Signal") {
				die("%s: obsrep call is not (ctx, <count>, [x]pipeline.SignalX)", name)
			}
			return a2
		}
		is, ok := body[0].(*ast.IfStmt)
		if !ok || typeString(is.Cond.(*ast.CallExpr).Fun) != fd.Recv.List[0].Names[0].Name+".memlimiter.MustRefuse" {
			die("%s: first statement is not `if p.memlimiter.MustRefuse()`", name)
		}
		for _, s := range is.Body.List {
			switch x := s.(type) {
			case *ast.ExprStmt:
				call, ok := x.X.(*ast.CallExpr)
				if ok && strings.HasSuffix(typeString(call.Fun), ".obsrep.refused") {
					r.refused = sigArg(call)
					continue
				}
				if isLoggerCall(x.X) {
					continue
				}
				die("%s: unexpected statement in the refusing branch", name)
			case *ast.ReturnStmt:
				if len(x.Results) != 2 || typeString(x.Results[0]) != data || typeString(x.Results[1]) != "memorylimiter.ErrDataRefused" {
					die("%s: refusing branch does not return (data, memorylimiter.ErrDataRefused)", name)
				}
			default:
				die("%s: unexpected statement in the refusing branch", name)
			}
		}
		if !terminates(is.Body.List) || is.Else != nil {
			die("%s: refusing branch must return, no else", name)
		}
		for _, s := range body[1:] {
			switch x := s.(type) {
			case *ast.ExprStmt:
				call, ok := x.X.(*ast.CallExpr)
				if ok && strings.HasSuffix(typeString(call.Fun), ".obsrep.accepted") {
					r.acc = sigArg(call)
					continue
				}
				die("%s: unexpected statement in the accepting path", name)
			case *ast.ReturnStmt:
				if len(x.Results) != 2 || typeString(x.Results[0]) != data || typeString(x.Results[1]) != "nil" {
					die("%s: accepting path does not return (data, nil)", name)
				}
			default:
				die("%s: unexpected statement in the accepting path", name)
			}
		}
		rows = append(rows, r)
	}
	c.out.WriteString("/-- the four `process*` functions of processor/memorylimiterprocessor/memorylimiter.go, shape-checked:\n`if p.memlimiter.MustRefuse() { [refused(n)]; return data, ErrDataRefused }; [accepted(n)]; return data, nil`.\nRow: (function, item-count method, signal passed to obsrep.refused (\"\" = not called), signal passed to obsrep.accepted) -/\n")
	c.out.WriteString("def processTable : List (String × String × String × String) := [\n")
	for i, r := range rows {
		sep := ","
		if i == len(rows)-1 {
			sep = ""
		}
		fmt.Fprintf(&c.out, "  (%s, %s, %s, %s)%s\n", leanStr(r.fn), leanStr(r.count), leanStr(r.refused), leanStr(r.acc), sep)
	}
	c.out.WriteString("]\n\n")
}

// processor/memorylimiterprocessor/obsreport.go: the signals for which obsReport.accepted / refused have an instrument
// (`switch signal { case pipeline.SignalX: or.telemetryBuilder.<Instrument>.Add(ctx, int64(num), or.otelAttrs) }`)
func obsreportShape(c *comp, f *ast.File) {
	for _, m := range []string{"accepted", "refused"} {
		fd := findFunc(f, "obsReport", m)
		if len(fd.Body.List) != 1 {
			die("obsReport.%s: expected a single switch", m)
		}
		sw, ok := fd.Body.List[0].(*ast.SwitchStmt)
		if !ok || typeString(sw.Tag) != fd.Type.Params.List[2].Names[0].Name {
			die("obsReport.%s: not a switch on the signal parameter", m)
		}
		num := fd.Type.Params.List[1].Names[0].Name
		var rows []string
		for _, cl := range sw.Body.List {
			cc := cl.(*ast.CaseClause)
			if len(cc.List) != 1 || len(cc.Body) != 1 {
				die("obsReport.%s: unexpected case clause", m)
			}
			es, ok := cc.Body[0].(*ast.ExprStmt)
			if !ok {
				die("obsReport.%s: case body is not a call", m)
			}
			call := es.X.(*ast.CallExpr)
			fn := typeString(call.Fun)
			if !strings.HasSuffix(fn, ".Add") || len(call.Args) != 3 || typeString(call.Args[1].(*ast.CallExpr).Args[0]) != num {
				die("obsReport.%s: case body is not <instrument>.Add(ctx, int64(%s), attrs)", m, num)
			}
			parts := strings.Split(fn, ".")
			rows = append(rows, fmt.Sprintf("(%s, %s)", leanStr(strings.TrimPrefix(typeString(cc.List[0]), "pipeline.")), leanStr(parts[len(parts)-2])))
		}
		fmt.Fprintf(&c.out, "/-- `obsReport.%s` (processor/memorylimiterprocessor/obsreport.go): (signal, instrument the count is added to); a signal without a row is counted nowhere -/\ndef obs_%s : List (String × String) := [%s]\n\n", m, m, strings.Join(rows, ", "))
	}
}

// ---------------------------------------------------------------------------------------------------------------
// C05

func modCacheDir(repo, goMod, module string) string {
	b, err := os.ReadFile(filepath.Join(repo, goMod))
	if err != nil {
		die("%v", err)
	}
	m := regexp.MustCompile(`(?m)^\s*` + regexp.QuoteMeta(module) + `\s+(v[^\s]+)`).FindSubmatch(b)
	if m == nil {
		die("%s does not require %s", goMod, module)
	}
	cache := os.Getenv("GOMODCACHE")
	if cache == "" {
		gp := os.Getenv("GOPATH")
		if gp == "" {
			home, _ := os.UserHomeDir()
			gp = filepath.Join(home, "go")
		}
		cache = filepath.Join(gp, "pkg", "mod")
	}
	dir := filepath.Join(cache, module+"@"+string(m[1]))
	if _, err := os.Stat(dir); err != nil {
		die("module %s %s not in the module cache (%s)", module, m[1], dir)
	}
	return dir
}

// decimal float literal -> exact fraction
func fracOfLit(s string) (string, bool) {
	if strings.ContainsAny(s, "eExXpP_") {
		return "", false
	}
	parts := strings.SplitN(s, ".", 2)
	den := "1"
	num := parts[0]
	if len(parts) == 2 {
		num += parts[1]
		den += strings.Repeat("0", len(parts[1]))
	}
	n, ok := new(big.Int).SetString(num, 10)
	dd, ok2 := new(big.Int).SetString(den, 10)
	if !ok || !ok2 {
		return "", false
	}
	g := new(big.Int).GCD(nil, nil, n, dd)
	if g.Sign() > 0 {
		n.Div(n, g)
		dd.Div(dd, g)
	}
	return "⟨" + n.String() + ", " + dd.String() + "⟩", true
}

func libFloatConst(f *ast.File, name string) string {
	for _, d := range f.Decls {
		gd, ok := d.(*ast.GenDecl)
		if !ok || gd.Tok != token.CONST {
			continue
		}
		for _, s := range gd.Specs {
			vs := s.(*ast.ValueSpec)
			for i, n := range vs.Names {
				if n.Name == name {
					if lit, ok := vs.Values[i].(*ast.BasicLit); ok {
						if fr, ok := fracOfLit(lit.Value); ok {
							return fr
						}
					}
					die("backoff.%s is not a decimal literal", name)
				}
			}
		}
	}
	die("backoff.%s not found", name)
	return ""
}

func modeC05(repo string) {
	c := newComp()
	boF := parse(filepath.Join(repo, "config/configretry/backoff.go"))
	toF := parse(filepath.Join(repo, "exporter/exporterhelper/internal/timeout_sender.go"))
	otlpF := parse(filepath.Join(repo, "exporter/otlpexporter/otlp.go"))
	libDir := modCacheDir(repo, "config/configretry/go.mod", "github.com/cenkalti/backoff/v5")
	libF := parse(filepath.Join(libDir, "exponential.go"))
	for _, n := range []string{"DefaultRandomizationFactor", "DefaultMultiplier"} {
		v := libFloatConst(libF, n)
		libConst["backoff."+n] = func() (string, kind) { return v, kFrac }
	}
	c.out.WriteString(header("c05", []string{"config/configretry/backoff.go", "exporter/exporterhelper/internal/timeout_sender.go",
		"exporter/otlpexporter/otlp.go", "exporter/exporterhelper/{logs,traces,metrics}.go", "exporter/exporterhelper/xexporterhelper/profiles.go",
		"consumer/consumererror/signalerrors.go", "consumer/consumererror/xconsumererror/signalerrors.go", "consumer/consumererror/internal/retryable.go",
		"exporter/exporterhelper/internal/base_exporter.go", "cenkalti/backoff/v5 exponential.go (two default constants)"}))
	c.out.WriteString("namespace OtelVerif.Gen.RetryCfg\n\n")
	c.out.WriteString("/-- a `float64` configuration value as an exact fraction (`den > 0`) -/\nstructure Frac where\n  num : Int\n  den : Nat\nderiving Repr, DecidableEq\n\n")
	c.addStruct(boF, "BackOffConfig", nil)
	c.emitStruct("BackOffConfig")
	c.fun(boF, "", "NewDefaultBackOffConfig", fopt{})
	c.fun(boF, "BackOffConfig", "Validate", fopt{leanName: "BackOffConfig.Validate"})
	c.addStruct(toF, "TimeoutConfig", nil)
	c.emitStruct("TimeoutConfig")
	c.fun(toF, "", "NewDefaultTimeoutConfig", fopt{})
	c.fun(toF, "TimeoutConfig", "Validate", fopt{leanName: "TimeoutConfig.Validate"})
	c.fun(otlpF, "", "shouldRetry", fopt{})
	onErrorShape(c, repo)
	signalErrShape(c, repo)
	chainShape(c, repo)
	retryStep(c, parse(filepath.Join(repo, "exporter/exporterhelper/internal/retry_sender.go")))
	timeoutStep(c, toF)
	skeletonsC05(c, repo)
	c.out.WriteString("end OtelVerif.Gen.RetryCfg\n")
	fmt.Print(c.out.String())
}

// per-signal OnError: `var x <pkg>.<T>; if errors.As(err, &x) { return new<S>Request(x.Data()) }; return req`
func onErrorShape(c *comp, repo string) {
	type src struct{ file, recv string }
	var rows []string
	for _, s := range []src{{"exporter/exporterhelper/logs.go", "logsRequest"}, {"exporter/exporterhelper/traces.go", "tracesRequest"},
		{"exporter/exporterhelper/metrics.go", "metricsRequest"}, {"exporter/exporterhelper/xexporterhelper/profiles.go", "profilesRequest"}} {
		f := parse(filepath.Join(repo, s.file))
		fd := findFunc(f, s.recv, "OnError")
		b := fd.Body.List
		bad := func(why string) { die("%s: %s.OnError: %s", s.file, s.recv, why) }
		if len(b) != 3 {
			bad("expected three statements")
		}
		ds, ok := b[0].(*ast.DeclStmt)
		if !ok {
			bad("first statement is not a var declaration")
		}
		vs := ds.Decl.(*ast.GenDecl).Specs[0].(*ast.ValueSpec)
		v, typ := vs.Names[0].Name, typeString(vs.Type)
		is, ok := b[1].(*ast.IfStmt)
		if !ok || is.Else != nil || is.Init != nil {
			bad("second statement is not a plain if")
		}
		call, ok := is.Cond.(*ast.CallExpr)
		if !ok || typeString(call.Fun) != "errors.As" || typeString(call.Args[0]) != fd.Type.Params.List[0].Names[0].Name {
			bad("condition is not errors.As(err, …)")
		}
		if u, ok := call.Args[1].(*ast.UnaryExpr); !ok || u.Op != token.AND || typeString(u.X) != v {
			bad("errors.As target is not the declared variable")
		}
		r, ok := is.Body.List[0].(*ast.ReturnStmt)
		if !ok || len(is.Body.List) != 1 || len(r.Results) != 1 {
			bad("if body is not a single return")
		}
		ctor, ok := r.Results[0].(*ast.CallExpr)
		if !ok || len(ctor.Args) != 1 {
			bad("does not return a constructor call")
		}
		dc, ok := ctor.Args[0].(*ast.CallExpr)
		if !ok || typeString(dc.Fun) != v+".Data" || len(dc.Args) != 0 {
			bad("the new request is not built from <errvar>.Data()")
		}
		r2, ok := b[2].(*ast.ReturnStmt)
		if !ok || len(r2.Results) != 1 || typeString(r2.Results[0]) != fd.Recv.List[0].Names[0].Name {
			bad("fallback does not return the request itself")
		}
		rows = append(rows, fmt.Sprintf("  (%s, %s, %s)", leanStr(s.recv), leanStr(typ), leanStr(typeString(ctor.Fun))))
	}
	c.out.WriteString("/-- `OnError` of the four request types, shape-checked: `var x T; if errors.As(err, &x) { return ctor(x.Data()) }; return req`.\nRow: (request type, error type searched by errors.As, constructor applied to its Data()) -/\n")
	c.out.WriteString("def onErrorTable : List (String × String × String) := [\n" + strings.Join(rows, ",\n") + "\n]\n\n")
}

// consumererror.NewLogs/NewTraces/NewMetrics, xconsumererror.NewProfiles and internal.Retryable
func signalErrShape(c *comp, repo string) {
	var rows []string
	check := func(file string, ctors map[string]string) {
		f := parse(filepath.Join(repo, file))
		for _, name := range []string{"NewTraces", "NewLogs", "NewMetrics", "NewProfiles"} {
			typ, ok := ctors[name]
			if !ok {
				continue
			}
			fd := findFunc(f, "", name)
			var pn []string
			for _, p := range fd.Type.Params.List {
				for _, n := range p.Names {
					pn = append(pn, n.Name)
				}
			}
			bad := func(why string) { die("%s: %s: %s", file, name, why) }
			if len(pn) != 2 || len(fd.Body.List) != 1 {
				bad("expected (err, data) and a single return")
			}
			r, ok := fd.Body.List[0].(*ast.ReturnStmt)
			if !ok || len(r.Results) != 1 {
				bad("not a single return")
			}
			outer, ok := r.Results[0].(*ast.CompositeLit)
			if !ok || typeString(outer.Type) != typ || len(outer.Elts) != 1 {
				bad("does not return " + typ + "{Retryable: …}")
			}
			kv := outer.Elts[0].(*ast.KeyValueExpr)
			inner, ok := kv.Value.(*ast.CompositeLit)
			if typeString(kv.Key) != "Retryable" || !ok || !strings.HasPrefix(typeString(inner.Type), "internal.Retryable[") {
				bad("field is not Retryable: internal.Retryable[…]{…}")
			}
			errFrom, valFrom := -1, -1
			for _, el := range inner.Elts {
				ikv := el.(*ast.KeyValueExpr)
				idx := -1
				for i, p := range pn {
					if typeString(ikv.Value) == p {
						idx = i
					}
				}
				switch typeString(ikv.Key) {
				case "Err":
					errFrom = idx
				case "Value":
					valFrom = idx
				default:
					bad("unknown Retryable field")
				}
			}
			if errFrom < 0 || valFrom < 0 {
				bad("Err / Value not both set from the parameters")
			}
			pkg := "consumererror"
			if strings.Contains(file, "xconsumererror") {
				pkg = "xconsumererror"
			}
			rows = append(rows, fmt.Sprintf("  (%s, %s, %d, %d)", leanStr(pkg+"."+name), leanStr(pkg+"."+typ), errFrom, valFrom))
		}
	}
	check("consumer/consumererror/signalerrors.go", map[string]string{"NewTraces": "Traces", "NewLogs": "Logs", "NewMetrics": "Metrics"})
	check("consumer/consumererror/xconsumererror/signalerrors.go", map[string]string{"NewProfiles": "Profiles"})
	c.out.WriteString("/-- the partial-failure constructors, shape-checked: `return T{Retryable: internal.Retryable[…]{Err: <param>, Value: <param>}}`.\nRow: (constructor, error type, index of the parameter stored in Err, index of the parameter stored in Value) -/\n")
	c.out.WriteString("def signalErrTable : List (String × String × Nat × Nat) := [\n" + strings.Join(rows, ",\n") + "\n]\n\n")
	// Retryable accessors
	f := parse(filepath.Join(repo, "consumer/consumererror/internal/retryable.go"))
	var acc []string
	for _, m := range []string{"Error", "Unwrap", "Data"} {
		fd := findFunc(f, "Retryable", m)
		r, ok := fd.Body.List[0].(*ast.ReturnStmt)
		if !ok || len(fd.Body.List) != 1 || len(r.Results) != 1 {
			die("Retryable.%s: not a single return", m)
		}
		recv := fd.Recv.List[0].Names[0].Name
		got := typeString(r.Results[0])
		if ce, ok := r.Results[0].(*ast.CallExpr); ok {
			got = typeString(ce.Fun) + "()"
		}
		if !strings.HasPrefix(got, recv+".") {
			die("Retryable.%s returns %s", m, got)
		}
		acc = append(acc, fmt.Sprintf("  (%s, %s)", leanStr(m), leanStr(strings.TrimPrefix(got, recv+"."))))
	}
	c.out.WriteString("/-- accessors of `internal.Retryable`: (method, what it returns of the receiver) -/\n")
	c.out.WriteString("def retryableAccessors : List (String × String) := [\n" + strings.Join(acc, ",\n") + "\n]\n\n")
}

// base_exporter.go NewBaseExporter: the timeout sender is installed iff Timeout != 0, the retry sender iff Enabled, retry OUTSIDE timeout
func chainShape(c *comp, repo string) {
	f := parse(filepath.Join(repo, "exporter/exporterhelper/internal/base_exporter.go"))
	fd := findFunc(f, "", "NewBaseExporter")
	var order []string
	var conds []string
	ast.Inspect(fd.Body, func(n ast.Node) bool {
		is, ok := n.(*ast.IfStmt)
		if !ok {
			return true
		}
		for _, s := range is.Body.List {
			as, ok := s.(*ast.AssignStmt)
			if !ok || len(as.Rhs) != 1 {
				continue
			}
			call, ok := as.Rhs[0].(*ast.CallExpr)
			if !ok {
				continue
			}
			switch typeString(call.Fun) {
			case "newTimeoutSender":
				order = append(order, "timeout")
				conds = append(conds, condString(is.Cond))
				if typeString(call.Args[len(call.Args)-1]) != "be.firstSender" {
					die("NewBaseExporter: newTimeoutSender does not wrap be.firstSender")
				}
			case "newRetrySender":
				order = append(order, "retry")
				conds = append(conds, condString(is.Cond))
				if typeString(call.Args[len(call.Args)-1]) != "be.firstSender" {
					die("NewBaseExporter: newRetrySender does not wrap be.firstSender")
				}
			}
		}
		return true
	})
	if len(order) != 2 {
		die("NewBaseExporter: expected one newTimeoutSender and one newRetrySender under an if, found %v", order)
	}
	c.out.WriteString("/-- `NewBaseExporter`: senders in the order they are wrapped around the pusher (inner first), each with the condition under which it is installed -/\n")
	fmt.Fprintf(&c.out, "def senderChain : List (String × String) := [(%s, %s), (%s, %s)]\n\n", leanStr(order[0]), leanStr(conds[0]), leanStr(order[1]), leanStr(conds[1]))
}

func condString(e ast.Expr) string {
	switch x := e.(type) {
	case *ast.BinaryExpr:
		return condString(x.X) + " " + x.Op.String() + " " + condString(x.Y)
	case *ast.BasicLit:
		return x.Value
	}
	return typeString(e)
}

// ---------------------------------------------------------------------------------------------------------------
// skeletons: a normalised rendering of a function body, statement by statement, with logging / tracing removed.
// Used for code that is outside the compiled subset (loops, select, channels): the model is hand-written, the
// skeleton pins the source it was written from (a theorem compares it with the expected list).

func exprStr(e ast.Expr) string {
	switch x := e.(type) {
	case nil:
		return ""
	case *ast.Ident:
		return x.Name
	case *ast.BasicLit:
		return x.Value
	case *ast.SelectorExpr:
		return exprStr(x.X) + "." + x.Sel.Name
	case *ast.StarExpr:
		return "*" + exprStr(x.X)
	case *ast.ParenExpr:
		return "(" + exprStr(x.X) + ")"
	case *ast.UnaryExpr:
		return x.Op.String() + exprStr(x.X)
	case *ast.BinaryExpr:
		return exprStr(x.X) + " " + x.Op.String() + " " + exprStr(x.Y)
	case *ast.CallExpr:
		var a []string
		for _, y := range x.Args {
			a = append(a, exprStr(y))
		}
		return exprStr(x.Fun) + "(" + strings.Join(a, ", ") + ")"
	case *ast.CompositeLit:
		var a []string
		for _, y := range x.Elts {
			a = append(a, exprStr(y))
		}
		return exprStr(x.Type) + "{" + strings.Join(a, ", ") + "}"
	case *ast.KeyValueExpr:
		return exprStr(x.Key) + ": " + exprStr(x.Value)
	case *ast.TypeAssertExpr:
		return exprStr(x.X) + ".(" + exprStr(x.Type) + ")"
	case *ast.IndexExpr:
		return exprStr(x.X) + "[" + exprStr(x.Index) + "]"
	case *ast.ChanType:
		return "chan " + exprStr(x.Value)
	case *ast.StructType:
		return "struct{}"
	case *ast.FuncLit:
		return "func() { " + blockStr(x.Body.List) + " }"
	}
	die("%s: skeleton: unsupported expression %T", pos(e), e)
	return ""
}

// noise: tracing, logging and their bookkeeping
func isNoise(s ast.Stmt) bool {
	switch x := s.(type) {
	case *ast.ExprStmt:
		t := exprStr(x.X)
		return strings.HasPrefix(t, "span.AddEvent(") || strings.Contains(t, ".logger.")
	case *ast.IncDecStmt:
		return exprStr(x.X) == "retryNum"
	case *ast.AssignStmt:
		l := exprStr(x.Lhs[0])
		return l == "span" || l == "retryNum" || l == "backoffDelayStr"
	}
	return false
}

func stmtStr(s ast.Stmt) string {
	switch x := s.(type) {
	case *ast.ReturnStmt:
		var a []string
		for _, r := range x.Results {
			a = append(a, exprStr(r))
		}
		return strings.TrimSpace("return " + strings.Join(a, ", "))
	case *ast.AssignStmt:
		var l, r []string
		for _, y := range x.Lhs {
			l = append(l, exprStr(y))
		}
		for _, y := range x.Rhs {
			r = append(r, exprStr(y))
		}
		return strings.Join(l, ", ") + " " + x.Tok.String() + " " + strings.Join(r, ", ")
	case *ast.ExprStmt:
		return exprStr(x.X)
	case *ast.DeferStmt:
		return "defer " + exprStr(x.Call)
	case *ast.DeclStmt:
		gd := x.Decl.(*ast.GenDecl)
		vs := gd.Specs[0].(*ast.ValueSpec)
		t := "var " + vs.Names[0].Name
		if vs.Type != nil {
			t += " " + exprStr(vs.Type)
		}
		if len(vs.Values) == 1 {
			t += " = " + exprStr(vs.Values[0])
		}
		return t
	case *ast.IfStmt:
		t := "if "
		if x.Init != nil {
			t += stmtStr(x.Init) + "; "
		}
		t += exprStr(x.Cond) + " { " + blockStr(x.Body.List) + " }"
		if x.Else != nil {
			if eb, ok := x.Else.(*ast.BlockStmt); ok {
				t += " else { " + blockStr(eb.List) + " }"
			} else {
				t += " else " + stmtStr(x.Else)
			}
		}
		return t
	case *ast.SelectStmt:
		var cs []string
		for _, cl := range x.Body.List {
			cc := cl.(*ast.CommClause)
			h := "default"
			if cc.Comm != nil {
				h = "case " + stmtStr(cc.Comm)
			}
			cs = append(cs, h+": "+blockStr(cc.Body))
		}
		return "select { " + strings.Join(cs, " | ") + " }"
	case *ast.ForStmt:
		if x.Init != nil || x.Cond != nil || x.Post != nil {
			die("%s: skeleton: only `for { }`", pos(x))
		}
		return "for { " + blockStr(x.Body.List) + " }"
	case *ast.BlockStmt:
		return "{ " + blockStr(x.List) + " }"
	case *ast.IncDecStmt:
		return exprStr(x.X) + x.Tok.String()
	case *ast.GoStmt:
		return "go " + exprStr(x.Call)
	case *ast.SwitchStmt:
		if x.Init != nil {
			die("%s: skeleton: switch with init", pos(x))
		}
		var cs []string
		for _, cl := range x.Body.List {
			cc := cl.(*ast.CaseClause)
			h := "default"
			if cc.List != nil {
				var v []string
				for _, y := range cc.List {
					v = append(v, exprStr(y))
				}
				h = "case " + strings.Join(v, ", ")
			}
			cs = append(cs, h+": "+blockStr(cc.Body))
		}
		return "switch " + exprStr(x.Tag) + " { " + strings.Join(cs, " | ") + " }"
	}
	die("%s: skeleton: unsupported statement %T", pos(s), s)
	return ""
}

func blockStr(l []ast.Stmt) string {
	var a []string
	for _, s := range l {
		if isNoise(s) {
			continue
		}
		a = append(a, stmtStr(s))
	}
	return strings.Join(a, "; ")
}

// skeleton emits the body of a function as a list of statements (a `for { }` at top level is opened up: its statements
// follow the marker "for {")
func skeleton(c *comp, leanName, doc string, fd *ast.FuncDecl) {
	var rows []string
	for _, s := range fd.Body.List {
		if isNoise(s) {
			continue
		}
		if f, ok := s.(*ast.ForStmt); ok && f.Init == nil && f.Cond == nil && f.Post == nil {
			rows = append(rows, "for {")
			for _, t := range f.Body.List {
				if !isNoise(t) {
					rows = append(rows, stmtStr(t))
				}
			}
			rows = append(rows, "}")
			continue
		}
		rows = append(rows, stmtStr(s))
	}
	fmt.Fprintf(&c.out, "/-- %s (%s), statement by statement, tracing and logging removed -/\ndef %s : List String := [\n", doc, relPos(fd), leanName)
	for i, r := range rows {
		sep := ","
		if i == len(rows)-1 {
			sep = ""
		}
		fmt.Fprintf(&c.out, "  %s%s\n", leanStr(r), sep)
	}
	c.out.WriteString("]\n\n")
}

func skeletonsC05(c *comp, repo string) {
	rsF := parse(filepath.Join(repo, "exporter/exporterhelper/internal/retry_sender.go"))
	skeleton(c, "skel_retrySend", "`retrySender.Send`", findFunc(rsF, "retrySender", "Send"))
	skeleton(c, "skel_retryShutdown", "`retrySender.Shutdown`", findFunc(rsF, "retrySender", "Shutdown"))
	skeleton(c, "skel_newThrottleRetry", "`NewThrottleRetry`", findFunc(rsF, "", "NewThrottleRetry"))
	skeleton(c, "skel_throttleUnwrap", "`throttleRetry.Unwrap`", findFunc(rsF, "throttleRetry", "Unwrap"))
	toF := parse(filepath.Join(repo, "exporter/exporterhelper/internal/timeout_sender.go"))
	skeleton(c, "skel_timeoutSend", "`timeoutSender.Send`", findFunc(toF, "timeoutSender", "Send"))
	exF := parse(filepath.Join(repo, "exporter/exporterhelper/internal/experr/err.go"))
	skeleton(c, "skel_newShutdownErr", "`experr.NewShutdownErr`", findFunc(exF, "", "NewShutdownErr"))
	skeleton(c, "skel_shutdownUnwrap", "`shutdownErr.Unwrap`", findFunc(exF, "shutdownErr", "Unwrap"))
	skeleton(c, "skel_isShutdownErr", "`experr.IsShutdownErr`", findFunc(exF, "", "IsShutdownErr"))
	pF := parse(filepath.Join(repo, "consumer/consumererror/permanent.go"))
	skeleton(c, "skel_newPermanent", "`consumererror.NewPermanent`", findFunc(pF, "", "NewPermanent"))
	skeleton(c, "skel_permanentUnwrap", "`permanent.Unwrap`", findFunc(pF, "permanent", "Unwrap"))
	skeleton(c, "skel_isPermanent", "`consumererror.IsPermanent`", findFunc(pF, "", "IsPermanent"))
	otF := parse(filepath.Join(repo, "exporter/otlpexporter/otlp.go"))
	skeleton(c, "skel_processError", "`otlpexporter.processError`", findFunc(otF, "", "processError"))
	// the back-off library, in the version config/configretry/go.mod requires (third-party code the model idealises:
	// curInterval / nextCur / libDraw were written from these three functions)
	libF := parse(filepath.Join(modCacheDir(repo, "config/configretry/go.mod", "github.com/cenkalti/backoff/v5"), "exponential.go"))
	skeleton(c, "skel_libNextBackOff", "`(*ExponentialBackOff).NextBackOff` of cenkalti/backoff/v5", findFunc(libF, "ExponentialBackOff", "NextBackOff"))
	skeleton(c, "skel_libIncrement", "`(*ExponentialBackOff).incrementCurrentInterval` of cenkalti/backoff/v5", findFunc(libF, "ExponentialBackOff", "incrementCurrentInterval"))
	skeleton(c, "skel_libRandomValue", "`getRandomValueFromInterval` of cenkalti/backoff/v5", findFunc(libF, "", "getRandomValueFromInterval"))
}

func skeletonsC18(c *comp, repo string) {
	mlF := parse(filepath.Join(repo, "internal/memorylimiter/memorylimiter.go"))
	skeleton(c, "skel_start", "`MemoryLimiter.Start`", findFunc(mlF, "MemoryLimiter", "Start"))
	skeleton(c, "skel_shutdown", "`MemoryLimiter.Shutdown`", findFunc(mlF, "MemoryLimiter", "Shutdown"))
	skeleton(c, "skel_mustRefuse", "`MemoryLimiter.MustRefuse`", findFunc(mlF, "MemoryLimiter", "MustRefuse"))
	exF := parse(filepath.Join(repo, "extension/memorylimiterextension/memorylimiter.go"))
	skeleton(c, "skel_extStart", "`memoryLimiterExtension.Start`", findFunc(exF, "memoryLimiterExtension", "Start"))
	skeleton(c, "skel_extShutdown", "`memoryLimiterExtension.Shutdown`", findFunc(exF, "memoryLimiterExtension", "Shutdown"))
	skeleton(c, "skel_extMustRefuse", "`memoryLimiterExtension.MustRefuse`", findFunc(exF, "memoryLimiterExtension", "MustRefuse"))
	cgF := parse(filepath.Join(repo, "internal/memorylimiter/cgroups/cgroups.go"))
	skeleton(c, "skel_memoryQuotaV2", "`cgroups.memoryQuotaV2`", findFunc(cgF, "", "memoryQuotaV2"))
	skeleton(c, "skel_memoryQuotaV1", "`CGroups.MemoryQuota`", findFunc(cgF, "CGroups", "MemoryQuota"))
	cg1F := parse(filepath.Join(repo, "internal/memorylimiter/cgroups/cgroup.go"))
	skeleton(c, "skel_readFirstLine", "`CGroup.readFirstLine`", findFunc(cg1F, "CGroup", "readFirstLine"))
	skeleton(c, "skel_readInt", "`CGroup.readInt`", findFunc(cg1F, "CGroup", "readInt"))
	fF := parse(filepath.Join(repo, "processor/memorylimiterprocessor/factory.go"))
	skeleton(c, "skel_getMemoryLimiter", "`factory.getMemoryLimiter`", findFunc(fF, "factory", "getMemoryLimiter"))
}

// ---------------------------------------------------------------------------------------------------------------
// retrySender.Send: the per-iteration decision chain as a pure step function.
// The loop itself (for / blocking select / timers) stays hand-modelled; everything between the call of the next sender and
// the blocking select is an if-chain over values that are inputs of the iteration. Each leaf condition / value of the Go
// code is mapped to a field of `StepIn` by its exact source text (table below); anything not in the table -> exit 2.

var stepLeaf = map[string]string{
	"err == nil":                           "i.errNil",
	"consumererror.IsPermanent(err)":       "i.permanent",
	"backoffDelay == backoff.Stop":         "decide (backoffDelay = i.backoffStop)",
	"errors.As(err, &throttleErr)":         "i.throttle.isSome",
	"maxElapsedTime.IsZero()":              "i.maxElapsed.isNone",
	"maxElapsedTime.Before(nextRetryTime)": "decide (i.maxElapsed.getD 0 < nextRetryTime)",
	"has":                                  "i.deadline.isSome",
	"deadline.Before(nextRetryTime)":       "decide (i.deadline.getD 0 < nextRetryTime)",
	"ctx.Err() != nil":                     "i.ctxErr",
	"ok":                                   "i.hasErrorHandler",
}

func stepCond(e ast.Expr) string {
	if l, ok := stepLeaf[exprStr(e)]; ok {
		return l
	}
	switch x := e.(type) {
	case *ast.ParenExpr:
		return "(" + stepCond(x.X) + ")"
	case *ast.UnaryExpr:
		if x.Op == token.NOT {
			return "!(" + stepCond(x.X) + ")"
		}
	case *ast.BinaryExpr:
		if x.Op == token.LAND {
			return "(" + stepCond(x.X) + " && " + stepCond(x.Y) + ")"
		}
		if x.Op == token.LOR {
			return "(" + stepCond(x.X) + " || " + stepCond(x.Y) + ")"
		}
	}
	die("%s: retry step: unknown condition `%s`", pos(e), exprStr(e))
	return ""
}

// a return inside the loop -> StepOut
func stepRet(r *ast.ReturnStmt) string {
	if len(r.Results) != 1 {
		die("%s: retry step: return with %d results", pos(r), len(r.Results))
	}
	t := exprStr(r.Results[0])
	if t == "nil" {
		return ".retNil"
	}
	if t == "experr.NewShutdownErr(err)" {
		return ".retShutdown"
	}
	if call, ok := r.Results[0].(*ast.CallExpr); ok && exprStr(call.Fun) == "fmt.Errorf" && len(call.Args) == 2 && exprStr(call.Args[1]) == "err" {
		if lit, ok := call.Args[0].(*ast.BasicLit); ok {
			msg, _ := strconv.Unquote(lit.Value)
			if strings.HasSuffix(msg, ": %w") {
				return ".retWrap " + leanStr(strings.TrimSuffix(msg, ": %w"))
			}
		}
	}
	die("%s: retry step: unknown return `%s`", pos(r), t)
	return ""
}

func singleReturn(l []ast.Stmt) *ast.ReturnStmt {
	var body []ast.Stmt
	for _, s := range l {
		if !isNoise(s) {
			body = append(body, s)
		}
	}
	if len(body) == 1 {
		if r, ok := body[0].(*ast.ReturnStmt); ok {
			return r
		}
	}
	return nil
}

func retryStep(c *comp, f *ast.File) {
	fd := findFunc(f, "retrySender", "Send")
	var loop *ast.ForStmt
	for _, s := range fd.Body.List {
		if l, ok := s.(*ast.ForStmt); ok {
			if loop != nil {
				die("retrySender.Send: more than one loop")
			}
			loop = l
		}
	}
	if loop == nil || loop.Init != nil || loop.Cond != nil || loop.Post != nil {
		die("retrySender.Send: no `for { }` loop")
	}
	var stmts []ast.Stmt
	for _, s := range loop.Body.List {
		if !isNoise(s) {
			stmts = append(stmts, s)
		}
	}
	if len(stmts) < 3 || stmtStr(stmts[0]) != "err := rs.next.Send(ctx, req)" {
		die("retrySender.Send: the loop does not begin with `err := rs.next.Send(ctx, req)`")
	}
	var out strings.Builder
	d := 1
	line := func(t string) { out.WriteString(ind(d) + t + "\n") }
	line("let narrowed := false")
	var selectCases []string
	done := false
	for k, s := range stmts[1:] {
		if done {
			die("%s: retry step: statement after the blocking select", pos(s))
		}
		switch x := s.(type) {
		case *ast.IfStmt:
			// `if c { return … }`
			if r := singleReturn(x.Body.List); r != nil && x.Else == nil {
				cond := ""
				if x.Init != nil {
					if stmtStr(x.Init) != "deadline, has := ctx.Deadline()" {
						die("%s: retry step: unknown if-initialiser `%s`", pos(x), stmtStr(x.Init))
					}
				}
				cond = stepCond(x.Cond)
				line("if " + cond + " then " + stepRet(r) + " else")
				continue
			}
			t := stmtStr(x)
			switch t {
			case "if errReq, ok := req.(request.ErrorHandler); ok { req = errReq.OnError(err) }":
				line("let narrowed := i.hasErrorHandler")
			case "if errors.As(err, &throttleErr) { backoffDelay = max(backoffDelay, throttleErr.delay) }":
				line("let backoffDelay := if i.throttle.isSome then max backoffDelay (i.throttle.getD 0) else backoffDelay")
			default:
				die("%s: retry step: unknown if statement `%s`", pos(x), t)
			}
		case *ast.AssignStmt:
			switch stmtStr(x) {
			case "backoffDelay := expBackoff.NextBackOff()":
				line("let backoffDelay := i.backoff")
			case "throttleErr := throttleRetry{}":
			case "nextRetryTime := time.Now().Add(backoffDelay)":
				line("let nextRetryTime := i.now + backoffDelay")
			default:
				die("%s: retry step: unknown assignment `%s`", pos(x), stmtStr(x))
			}
		case *ast.SelectStmt:
			hasDefault := false
			var cases []string
			for _, cl := range x.Body.List {
				cc := cl.(*ast.CommClause)
				if cc.Comm == nil {
					hasDefault = true
					if len(cc.Body) != 0 {
						die("%s: retry step: default clause with a body", pos(cc))
					}
					continue
				}
				ch := strings.TrimPrefix(stmtStr(cc.Comm), "<-")
				res := "continue"
				if r := singleReturn(cc.Body); r != nil {
					res = stepRet(r)
				} else if len(cc.Body) != 0 {
					die("%s: retry step: unknown select clause body", pos(cc))
				}
				cases = append(cases, ch+" => "+res)
			}
			if hasDefault {
				// a poll: only `case <-rs.stopCh: return shutdown` is known
				if len(cases) != 1 || cases[0] != "rs.stopCh => .retShutdown" {
					die("%s: retry step: unknown polling select %v", pos(x), cases)
				}
				line("if i.stopClosed then .retShutdown else")
			} else {
				if k != len(stmts)-2 {
					die("%s: retry step: the blocking select is not the last statement of the loop", pos(x))
				}
				selectCases = cases
				line(".wait backoffDelay narrowed")
				done = true
			}
		default:
			die("%s: retry step: unknown statement `%s`", pos(s), stmtStr(s))
		}
	}
	if !done {
		die("retrySender.Send: the loop does not end with a blocking select")
	}
	// what precedes the loop: the budget instant
	pre := blockStr(fd.Body.List[:indexOf(fd.Body.List, loop)])
	wantPre := "expBackoff := backoff.ExponentialBackOff{InitialInterval: rs.cfg.InitialInterval, RandomizationFactor: rs.cfg.RandomizationFactor, Multiplier: rs.cfg.Multiplier, MaxInterval: rs.cfg.MaxInterval}; var maxElapsedTime time.Time; if rs.cfg.MaxElapsedTime > 0 { maxElapsedTime = time.Now().Add(rs.cfg.MaxElapsedTime) }"
	if pre != wantPre {
		die("retrySender.Send: unexpected statements before the loop: %s", pre)
	}
	c.out.WriteString(`/-- inputs of one iteration of the loop of ` + "`retrySender.Send`" + ` after ` + "`err := rs.next.Send(ctx, req)`" + ` returned: the classification
of ` + "`err`" + `, what ` + "`NextBackOff`" + ` returned, the clock at ` + "`time.Now()`" + `, ` + "`maxElapsedTime`" + ` (` + "`none`" + ` = zero: ` + "`MaxElapsedTime <= 0`" + `, else entry instant +
` + "`MaxElapsedTime`" + `), ` + "`ctx.Deadline()`" + `, whether ` + "`stopCh`" + ` is closed / ` + "`ctx.Err() != nil`" + ` at the polls -/
structure StepIn where
  errNil : Bool
  permanent : Bool
  hasErrorHandler : Bool
  throttle : Option Int
  backoff : Int
  backoffStop : Int
  now : Int
  maxElapsed : Option Int
  deadline : Option Int
  stopClosed : Bool
  ctxErr : Bool
deriving Repr, DecidableEq

/-- outcome of the iteration: a return (` + "`nil`" + `, ` + "`fmt.Errorf(\"<msg>: %w\", err)`" + `, ` + "`experr.NewShutdownErr(err)`" + `) or the blocking select with
a timer of ` + "`d`" + ` (` + "`narrowed`" + `: ` + "`req = errReq.OnError(err)`" + ` was executed) -/
inductive StepOut
  | retNil
  | retWrap (msg : String)
  | retShutdown
  | wait (d : Int) (narrowed : Bool)
deriving Repr, DecidableEq

`)
	fmt.Fprintf(&c.out, "/-- the decision chain of one iteration of `retrySender.Send` (%s), compiled statement by statement: everything between\nthe call of the next sender and the blocking select -/\ndef retryStep (i : StepIn) : StepOut :=\n%s\n", relPos(loop), out.String())
	fmt.Fprintf(&c.out, "/-- the blocking select that ends the iteration: (channel, outcome), in source order -/\ndef retrySelect : List String := %s\n\n", leanStrList(selectCases))
}

// timeoutSender.Send: `tCtx, cancelFunc := context.WithTimeout(ctx, ts.cfg.Timeout); defer cancelFunc(); return ts.next.Send(tCtx, req)`.
// context.WithTimeout is a primitive (deadline = the earlier of the parent's and now + timeout); what is regenerated is WHICH
// context and WHICH duration are used and that the derived context is the one handed on.
func timeoutStep(c *comp, f *ast.File) {
	fd := findFunc(f, "timeoutSender", "Send")
	want := []string{"tCtx, cancelFunc := context.WithTimeout(ctx, ts.cfg.Timeout)", "defer cancelFunc()", "return ts.next.Send(tCtx, req)"}
	if len(fd.Body.List) != len(want) {
		die("timeoutSender.Send: expected %d statements", len(want))
	}
	for i, s := range fd.Body.List {
		if stmtStr(s) != want[i] {
			die("%s: timeoutSender.Send: statement %d is `%s`, expected `%s`", pos(s), i, stmtStr(s), want[i])
		}
	}
	c.out.WriteString("/-- `timeoutSender.Send` (" + relPos(fd) + "): the deadline of the context handed to the next sender —\n`context.WithTimeout(ctx, ts.cfg.Timeout)` of the CALLER's context (primitive: the earlier of the parent's deadline and now + timeout), fresh on every call -/\n")
	c.out.WriteString("def timeoutSendDeadline (parentDeadline : Option Int) (now timeout : Int) : Int :=\n  match parentDeadline with\n  | some d => min d (now + timeout)\n  | none => now + timeout\n\n")
}

func indexOf(l []ast.Stmt, s ast.Stmt) int {
	for i, x := range l {
		if x == s {
			return i
		}
	}
	return -1
}

func main() {
	if len(os.Args) < 3 {
		die("usage: gofunlean <repo> c18|c05")
	}
	repoRoot = os.Args[1]
	switch os.Args[2] {
	case "c18":
		modeC18(os.Args[1])
	case "c05":
		modeC05(os.Args[1])
	default:
		die("unknown mode %s", os.Args[2])
	}
}
