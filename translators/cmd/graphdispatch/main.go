// graphdispatch regenerates lean/OtelVerif/Gen/GraphDispatch.lean from the per-signal / per-signal-pair dispatch code of the
// pipeline graph builder:
//
//	service/internal/graph/graph.go       connectorStability (16 cells, xconnector.Factory guards), buildComponents (capabilities / fan-out glue),
//	                                      every fmt.Errorf format string
//	service/internal/graph/connector.go   connectorNode.buildComponent -> build<Signal> -> builder.Create<A>To<B>, New<Signal>Router
//	service/internal/graph/{receiver,processor,exporter}.go   <kind>Node.buildComponent -> builder.Create<Signal>
//	service/internal/builders/{connector,receiver,processor,exporter}.go   Create… -> f.…Stability(), f.Create…
//
// Only the dispatch facts are extracted: which method is reached for which signal (pair). Signals are printed as codes
// 0 = traces, 1 = metrics, 2 = logs, 3 = profiles; the signal(s) a method NAME speaks about (TracesToMetricsStability -> 0,1) are
// decoded here so that the Lean side compares numbers. Any unexpected shape makes the program exit 2.
package main

import (
	"fmt"
	"go/ast"
	"go/parser"
	"go/token"
	"os"
	"path/filepath"
	"regexp"
	"strconv"
	"strings"
)

func die(format string, a ...any) {
	fmt.Fprintf(os.Stderr, "graphdispatch: "+format+"\n", a...)
	os.Exit(2)
}

var words = map[string]int{"Traces": 0, "Metrics": 1, "Logs": 2, "Profiles": 3}

func sigOfWord(w, where string) int {
	s, ok := words[w]
	if !ok {
		die("%s: %q is not a signal name", where, w)
	}
	return s
}

// sigOfCase: `pipeline.SignalTraces` / `xpipeline.SignalProfiles` -> code; -1 when the expression is something else
func sigOfCase(e ast.Expr) int {
	se, ok := e.(*ast.SelectorExpr)
	if !ok || !strings.HasPrefix(se.Sel.Name, "Signal") {
		return -1
	}
	s, ok := words[strings.TrimPrefix(se.Sel.Name, "Signal")]
	if !ok {
		return -1
	}
	return s
}

func parse(repo, rel string) *ast.File {
	f, err := parser.ParseFile(token.NewFileSet(), filepath.Join(repo, rel), nil, 0)
	if err != nil {
		die("%v", err)
	}
	return f
}

func recvName(fd *ast.FuncDecl) string {
	if fd.Recv == nil || len(fd.Recv.List) != 1 {
		return ""
	}
	t := fd.Recv.List[0].Type
	if st, ok := t.(*ast.StarExpr); ok {
		t = st.X
	}
	if id, ok := t.(*ast.Ident); ok {
		return id.Name
	}
	return ""
}

func findFunc(f *ast.File, recv, name string) *ast.FuncDecl {
	var out *ast.FuncDecl
	for _, d := range f.Decls {
		if fd, ok := d.(*ast.FuncDecl); ok && fd.Name.Name == name && recvName(fd) == recv {
			if out != nil {
				die("%s.%s declared twice", recv, name)
			}
			out = fd
		}
	}
	if out == nil {
		die("func (%s) %s not found", recv, name)
	}
	return out
}

type sigCase struct {
	sig  int
	body []ast.Stmt
}

// signalSwitches: every switch statement under n all of whose (non-default) cases are single signal constants
func signalSwitches(n ast.Node) (out [][]sigCase) {
	ast.Inspect(n, func(x ast.Node) bool {
		sw, ok := x.(*ast.SwitchStmt)
		if !ok {
			return true
		}
		var cs []sigCase
		for _, c := range sw.Body.List {
			cc := c.(*ast.CaseClause)
			if cc.List == nil { // default
				continue
			}
			if len(cc.List) != 1 || sigOfCase(cc.List[0]) < 0 {
				return true // not a signal switch (e.g. the type switch is a TypeSwitchStmt anyway)
			}
			cs = append(cs, sigCase{sigOfCase(cc.List[0]), cc.Body})
		}
		if len(cs) > 0 {
			out = append(out, cs)
		}
		return true
	})
	return
}

// calls: names of the methods / functions called as `<recv>.<Sel>(…)` under the statements, Sel matching re
func calls(stmts []ast.Stmt, recv string, re *regexp.Regexp) (out []string) {
	for _, st := range stmts {
		ast.Inspect(st, func(x ast.Node) bool {
			if ce, ok := x.(*ast.CallExpr); ok {
				if se, ok := ce.Fun.(*ast.SelectorExpr); ok {
					if id, ok := se.X.(*ast.Ident); ok && id.Name == recv && re.MatchString(se.Sel.Name) {
						out = append(out, se.Sel.Name)
					}
				}
			}
			return true
		})
	}
	return
}

func one(l []string, where string) string {
	if len(l) != 1 {
		die("%s: expected exactly one call, found %v", where, l)
	}
	return l[0]
}

func checkAllSignals(cs []sigCase, where string) {
	seen := map[int]bool{}
	for _, c := range cs {
		if seen[c.sig] {
			die("%s: signal %d has two cases", where, c.sig)
		}
		seen[c.sig] = true
	}
	if len(seen) != 4 {
		die("%s: expected the four signals, found %d cases", where, len(seen))
	}
}

var (
	reCreate    = regexp.MustCompile(`^Create`)
	reStability = regexp.MustCompile(`Stability$`)
	reRouter    = regexp.MustCompile(`^New\w+Router$`)
	reNew       = regexp.MustCompile(`^New`)
	rePair      = regexp.MustCompile(`^(?:Create)?([A-Z][a-z]+)To([A-Z][a-z]+)(?:Stability)?$`)
	reSingle    = regexp.MustCompile(`^(?:Create|New)?([A-Z][a-z]+?)(?:Stability|Router)?$`)
)

func pairOf(name, where string) (int, int) {
	m := rePair.FindStringSubmatch(name)
	if m == nil {
		die("%s: %q does not name a signal pair", where, name)
	}
	return sigOfWord(m[1], where), sigOfWord(m[2], where)
}

func singleOf(name, where string) int {
	m := reSingle.FindStringSubmatch(name)
	if m == nil {
		die("%s: %q does not name a signal", where, name)
	}
	return sigOfWord(m[1], where)
}

// ---- connectorStability ---------------------------------------------------------------------------

// stripGuard: `v, ok := f.(xconnector.Factory); if !ok { return component.StabilityLevelUndefined }` in front of the statements
func stripGuard(stmts []ast.Stmt) ([]ast.Stmt, string) {
	if len(stmts) < 2 {
		return stmts, ""
	}
	as, ok := stmts[0].(*ast.AssignStmt)
	if !ok || as.Tok != token.DEFINE || len(as.Lhs) != 2 || len(as.Rhs) != 1 {
		return stmts, ""
	}
	ta, ok := as.Rhs[0].(*ast.TypeAssertExpr)
	if !ok {
		return stmts, ""
	}
	if id, ok := ta.X.(*ast.Ident); !ok || id.Name != "f" {
		die("connectorStability: type assertion on something else than f")
	}
	if se, ok := ta.Type.(*ast.SelectorExpr); !ok || se.Sel.Name != "Factory" || se.X.(*ast.Ident).Name != "xconnector" {
		die("connectorStability: type assertion to something else than xconnector.Factory")
	}
	v, okName := as.Lhs[0].(*ast.Ident).Name, as.Lhs[1].(*ast.Ident).Name
	is, ok := stmts[1].(*ast.IfStmt)
	if !ok || is.Else != nil || is.Init != nil || len(is.Body.List) != 1 {
		die("connectorStability: guard is not followed by `if !ok { return … }`")
	}
	un, ok := is.Cond.(*ast.UnaryExpr)
	if !ok || un.Op != token.NOT || un.X.(*ast.Ident).Name != okName {
		die("connectorStability: guard condition is not !%s", okName)
	}
	if !isUndefinedReturn(is.Body.List[0]) {
		die("connectorStability: guard does not return StabilityLevelUndefined")
	}
	return stmts[2:], v
}

func isUndefinedReturn(st ast.Stmt) bool {
	rs, ok := st.(*ast.ReturnStmt)
	if !ok || len(rs.Results) != 1 {
		return false
	}
	se, ok := rs.Results[0].(*ast.SelectorExpr)
	return ok && se.Sel.Name == "StabilityLevelUndefined"
}

type stabRow struct {
	e, r, me, mr int
	guarded      bool
	name         string
}

func signalSwitchOn(st ast.Stmt, tag, where string) []sigCase {
	sw, ok := st.(*ast.SwitchStmt)
	if !ok || sw.Init != nil {
		die("%s: expected `switch %s`", where, tag)
	}
	if id, ok := sw.Tag.(*ast.Ident); !ok || id.Name != tag {
		die("%s: expected `switch %s`", where, tag)
	}
	var cs []sigCase
	for _, c := range sw.Body.List {
		cc := c.(*ast.CaseClause)
		if len(cc.List) != 1 || sigOfCase(cc.List[0]) < 0 {
			die("%s: case of `switch %s` is not a single signal constant", where, tag)
		}
		cs = append(cs, sigCase{sigOfCase(cc.List[0]), cc.Body})
	}
	checkAllSignals(cs, where)
	return cs
}

func stability(f *ast.File) (rows []stabRow) {
	fn := findFunc(f, "", "connectorStability")
	if len(fn.Type.Params.List) != 2 || fn.Type.Params.List[0].Names[0].Name != "f" ||
		len(fn.Type.Params.List[1].Names) != 2 || fn.Type.Params.List[1].Names[0].Name != "expType" || fn.Type.Params.List[1].Names[1].Name != "recType" {
		die("connectorStability: parameters are not (f, expType, recType)")
	}
	if len(fn.Body.List) != 2 || !isUndefinedReturn(fn.Body.List[1]) {
		die("connectorStability: body is not `switch expType {…}; return StabilityLevelUndefined`")
	}
	for _, oc := range signalSwitchOn(fn.Body.List[0], "expType", "connectorStability") {
		body, outerGuard := stripGuard(oc.body)
		if len(body) != 1 {
			die("connectorStability: case %d has %d statements after the guard", oc.sig, len(body))
		}
		for _, ic := range signalSwitchOn(body[0], "recType", "connectorStability") {
			ib, innerGuard := stripGuard(ic.body)
			if len(ib) != 1 {
				die("connectorStability: cell (%d,%d) has %d statements after the guard", oc.sig, ic.sig, len(ib))
			}
			rs, ok := ib[0].(*ast.ReturnStmt)
			if !ok || len(rs.Results) != 1 {
				die("connectorStability: cell (%d,%d) does not end in a return", oc.sig, ic.sig)
			}
			ce, ok := rs.Results[0].(*ast.CallExpr)
			if !ok || len(ce.Args) != 0 {
				die("connectorStability: cell (%d,%d) does not return a method call without arguments", oc.sig, ic.sig)
			}
			se, ok := ce.Fun.(*ast.SelectorExpr)
			if !ok {
				die("connectorStability: cell (%d,%d) does not return a method call", oc.sig, ic.sig)
			}
			on := se.X.(*ast.Ident).Name
			guarded := false
			switch {
			case on == "f":
			case on != "" && (on == outerGuard || on == innerGuard):
				guarded = true
			default:
				die("connectorStability: cell (%d,%d) calls a method on %q", oc.sig, ic.sig, on)
			}
			if !reStability.MatchString(se.Sel.Name) {
				die("connectorStability: cell (%d,%d) returns %s()", oc.sig, ic.sig, se.Sel.Name)
			}
			me, mr := pairOf(se.Sel.Name, "connectorStability")
			rows = append(rows, stabRow{oc.sig, ic.sig, me, mr, guarded, se.Sel.Name})
		}
	}
	return
}

// ---- connector.go -----------------------------------------------------------------------------------

type connRow struct {
	rcvr, expr, ce, cr, router int
	create, routerName         string
}

func connBuild(f *ast.File) (rows []connRow) {
	bc := findFunc(f, "connectorNode", "buildComponent")
	sws := signalSwitches(bc)
	if len(sws) != 1 {
		die("connectorNode.buildComponent: expected one signal switch, found %d", len(sws))
	}
	checkAllSignals(sws[0], "connectorNode.buildComponent")
	for _, c := range sws[0] {
		fname := one(calls(c.body, "n", regexp.MustCompile(`^build`)), "connectorNode.buildComponent")
		fn := findFunc(f, "connectorNode", fname)
		router := one(calls(fn.Body.List, "connector", reRouter), fname+" (router)")
		if router == "" {
			die("%s: no router", fname)
		}
		// `next := <pkg>.New<Signal>Router(consumers)` must be what the builder gets
		found := false
		for _, st := range fn.Body.List {
			if as, ok := st.(*ast.AssignStmt); ok && len(as.Lhs) == 1 && len(as.Rhs) == 1 {
				if id, ok := as.Lhs[0].(*ast.Ident); ok && id.Name == "next" && len(calls([]ast.Stmt{st}, "connector", reRouter)) == 1 {
					found = true
				}
			}
		}
		if !found {
			die("%s: the router is not assigned to `next`", fname)
		}
		inner := signalSwitches(fn)
		if len(inner) != 1 {
			die("%s: expected one signal switch, found %d", fname, len(inner))
		}
		checkAllSignals(inner[0], fname)
		for _, ic := range inner[0] {
			cr := one(calls(ic.body, "builder", reCreate), fmt.Sprintf("%s case %d", fname, ic.sig))
			// the last argument of the builder call is the router
			ok := false
			for _, st := range ic.body {
				ast.Inspect(st, func(x ast.Node) bool {
					if ce, isCall := x.(*ast.CallExpr); isCall {
						if se, isSel := ce.Fun.(*ast.SelectorExpr); isSel && se.Sel.Name == cr && len(ce.Args) == 3 {
							if id, isID := ce.Args[2].(*ast.Ident); isID && id.Name == "next" {
								ok = true
							}
						}
					}
					return true
				})
			}
			if !ok {
				die("%s case %d: %s is not called with (ctx, set, next)", fname, ic.sig, cr)
			}
			a, b := pairOf(cr, fname)
			rows = append(rows, connRow{c.sig, ic.sig, a, b, singleOf(router, fname), cr, router})
		}
	}
	return
}

// the router constructors live in package connector (traces/metrics/logs) and xconnector (profiles)
func callsAny(stmts []ast.Stmt, recvs []string, re *regexp.Regexp) (out []string) {
	for _, r := range recvs {
		out = append(out, calls(stmts, r, re)...)
	}
	return
}

// ---- builders ---------------------------------------------------------------------------------------

type builderRow struct {
	kind          int // 0 receiver, 1 processor, 2 exporter, 3 connector
	m, st, cr     [2]int
	name, stN, cN string
}

func builderRows(f *ast.File, kind int, recv string) (rows []builderRow) {
	for _, d := range f.Decls {
		fd, ok := d.(*ast.FuncDecl)
		if !ok || recvName(fd) != recv || !strings.HasPrefix(fd.Name.Name, "Create") {
			continue
		}
		where := recv + "." + fd.Name.Name
		st := one(calls(fd.Body.List, "f", reStability), where+" (stability)")
		cr := one(calls(fd.Body.List, "f", reCreate), where+" (create)")
		// the factory's Create result is what the method returns
		last, ok := fd.Body.List[len(fd.Body.List)-1].(*ast.ReturnStmt)
		if !ok || len(calls([]ast.Stmt{last}, "f", reCreate)) != 1 {
			die("%s: does not end in `return f.Create…`", where)
		}
		row := builderRow{kind: kind, name: fd.Name.Name, stN: st, cN: cr}
		if kind == 3 {
			a, b := pairOf(fd.Name.Name, where)
			row.m = [2]int{a, b}
			a, b = pairOf(st, where)
			row.st = [2]int{a, b}
			a, b = pairOf(cr, where)
			row.cr = [2]int{a, b}
		} else {
			row.m = [2]int{singleOf(fd.Name.Name, where), 0}
			row.st = [2]int{singleOf(st, where), 0}
			row.cr = [2]int{singleOf(cr, where), 0}
		}
		rows = append(rows, row)
	}
	want := 4
	if kind == 3 {
		want = 16
	}
	if len(rows) != want {
		die("%s: expected %d Create methods, found %d", recv, want, len(rows))
	}
	return
}

// ---- receiver / processor / exporter nodes and the capabilities / fan-out glue -------------------------

type nodeRow struct {
	kind, sig, m int
	name         string
}

func nodeBuild(f *ast.File, kind int, recv string) (rows []nodeRow) {
	fn := findFunc(f, recv, "buildComponent")
	sws := signalSwitches(fn)
	if len(sws) != 1 {
		die("%s.buildComponent: expected one signal switch, found %d", recv, len(sws))
	}
	checkAllSignals(sws[0], recv+".buildComponent")
	for _, c := range sws[0] {
		cr := one(calls(c.body, "builder", reCreate), fmt.Sprintf("%s.buildComponent case %d", recv, c.sig))
		rows = append(rows, nodeRow{kind, c.sig, singleOf(cr, recv), cr})
		if kind == 0 { // the receiver's next consumer is a fan-out over the pipelines' capabilities nodes, of the same signal
			fo := one(calls(c.body, "fanoutconsumer", reNew), fmt.Sprintf("%s.buildComponent case %d (fanout)", recv, c.sig))
			rows = append(rows, nodeRow{4, c.sig, singleOf(fo, recv), "fanoutconsumer." + fo})
		}
	}
	return
}

func glue(f *ast.File) (rows []nodeRow) {
	fn := findFunc(f, "Graph", "buildComponents")
	nCap, nFan := 0, 0
	for _, sw := range signalSwitches(fn) {
		checkAllSignals(sw, "buildComponents")
		var all []ast.Stmt
		for _, c := range sw {
			all = append(all, c.body...)
		}
		switch {
		case len(calls(all, "capabilityconsumer", reNew)) == 4 && len(calls(all, "fanoutconsumer", reNew)) == 0:
			nCap++
			for _, c := range sw {
				n := one(calls(c.body, "capabilityconsumer", reNew), "buildComponents capabilities")
				rows = append(rows, nodeRow{5, c.sig, singleOf(n, "capabilities"), "capabilityconsumer." + n})
			}
		case len(calls(all, "fanoutconsumer", reNew)) == 4 && len(calls(all, "capabilityconsumer", reNew)) == 0:
			nFan++
			for _, c := range sw {
				n := one(calls(c.body, "fanoutconsumer", reNew), "buildComponents fan-out")
				rows = append(rows, nodeRow{6, c.sig, singleOf(n, "fanout"), "fanoutconsumer." + n})
			}
		default:
			die("buildComponents: a signal switch that is neither the capabilities nor the fan-out glue")
		}
	}
	if nCap != 1 || nFan != 1 {
		die("buildComponents: expected one capabilities and one fan-out switch, found %d / %d", nCap, nFan)
	}
	return
}

// ---- fmt.Errorf formats --------------------------------------------------------------------------------

func errorFormats(f *ast.File) (out [][2]string) {
	for _, d := range f.Decls {
		fd, ok := d.(*ast.FuncDecl)
		if !ok || fd.Body == nil {
			continue
		}
		ast.Inspect(fd.Body, func(x ast.Node) bool {
			ce, ok := x.(*ast.CallExpr)
			if !ok {
				return true
			}
			se, ok := ce.Fun.(*ast.SelectorExpr)
			if !ok {
				return true
			}
			id, ok := se.X.(*ast.Ident)
			if !ok || id.Name != "fmt" || (se.Sel.Name != "Errorf" && se.Sel.Name != "Sprintf") || len(ce.Args) == 0 {
				return true
			}
			lit, ok := ce.Args[0].(*ast.BasicLit)
			if !ok || lit.Kind != token.STRING {
				die("%s: fmt.%s with a non-literal format", fd.Name.Name, se.Sel.Name)
			}
			s, err := strconv.Unquote(lit.Value)
			if err != nil {
				die("%s: %v", fd.Name.Name, err)
			}
			out = append(out, [2]string{fd.Name.Name, s})
			return true
		})
	}
	return
}

func leanStr(s string) string {
	var b strings.Builder
	b.WriteByte('"')
	for _, r := range s {
		switch {
		case r == '"' || r == '\\':
			b.WriteByte('\\')
			b.WriteRune(r)
		case r == '\n':
			b.WriteString("\\n")
		case r < 0x20 || r > 0x7e:
			die("format string with a character outside printable ASCII: %q", s)
		default:
			b.WriteRune(r)
		}
	}
	b.WriteByte('"')
	return b.String()
}

func main() {
	// an AST that is not of the expected form may also surface as a failed type assertion: same verdict, exit 2
	defer func() {
		if r := recover(); r != nil {
			die("unexpected shape: %v", r)
		}
	}()
	if len(os.Args) < 2 {
		die("usage: graphdispatch <repo>")
	}
	repo := os.Args[1]
	gf := parse(repo, "service/internal/graph/graph.go")
	cf := parse(repo, "service/internal/graph/connector.go")

	// connector.go's routers come from two packages; `calls` takes one receiver name, so normalise xconnector -> connector first
	ast.Inspect(cf, func(x ast.Node) bool {
		if se, ok := x.(*ast.SelectorExpr); ok {
			if id, ok := se.X.(*ast.Ident); ok && id.Name == "xconnector" && reRouter.MatchString(se.Sel.Name) {
				id.Name = "connector"
			}
		}
		return true
	})

	stab := stability(gf)
	if len(stab) != 16 {
		die("connectorStability: %d cells", len(stab))
	}
	conn := connBuild(cf)
	if len(conn) != 16 {
		die("connector.go: %d cells", len(conn))
	}
	var nodesT []nodeRow
	nodesT = append(nodesT, nodeBuild(parse(repo, "service/internal/graph/receiver.go"), 0, "receiverNode")...)
	nodesT = append(nodesT, nodeBuild(parse(repo, "service/internal/graph/processor.go"), 1, "processorNode")...)
	nodesT = append(nodesT, nodeBuild(parse(repo, "service/internal/graph/exporter.go"), 2, "exporterNode")...)
	nodesT = append(nodesT, glue(gf)...)
	var bld []builderRow
	bld = append(bld, builderRows(parse(repo, "service/internal/builders/receiver.go"), 0, "ReceiverBuilder")...)
	bld = append(bld, builderRows(parse(repo, "service/internal/builders/processor.go"), 1, "ProcessorBuilder")...)
	bld = append(bld, builderRows(parse(repo, "service/internal/builders/exporter.go"), 2, "ExporterBuilder")...)
	bld = append(bld, builderRows(parse(repo, "service/internal/builders/connector.go"), 3, "ConnectorBuilder")...)
	errs := errorFormats(gf)

	b := func(x bool) string {
		if x {
			return "true"
		}
		return "false"
	}
	fmt.Print("/- GENERATED by /verif/translators/cmd/graphdispatch from service/internal/graph/{graph,connector,receiver,processor,exporter}.go and\n" +
		"   service/internal/builders/{connector,receiver,processor,exporter}.go — do not edit.\n" +
		"   Signal codes: 0 = traces, 1 = metrics, 2 = logs, 3 = profiles. -/\nnamespace OtelVerif.Gen.GraphDispatch\n\n")
	fmt.Print("/-- `connectorStability(f, expType, recType)`, one row per cell in source order: (expType, recType, exporter-side and receiver-side\n" +
		"signal named by the factory method whose result is returned, whether the call sits behind the `f.(xconnector.Factory)` assertion\n" +
		"(failing assertion = `StabilityLevelUndefined`), method name) -/\n")
	fmt.Print("def stabilityTable : List (Nat × Nat × Nat × Nat × Bool × String) := [\n")
	for i, r := range stab {
		sep := ","
		if i == len(stab)-1 {
			sep = ""
		}
		fmt.Printf("  (%d, %d, %d, %d, %s, %s)%s\n", r.e, r.r, r.me, r.mr, b(r.guarded), leanStr(r.name), sep)
	}
	fmt.Print("]\n\n/-- `connectorNode.buildComponent` → `build<Signal>`, one row per cell: (rcvrPipelineType, exprPipelineType, exporter-side and\n" +
		"receiver-side signal named by the `builder.Create<A>To<B>` that is called, signal of the router handed to it as next consumer,\n" +
		"builder method, router constructor) -/\n")
	fmt.Print("def connBuildTable : List (Nat × Nat × Nat × Nat × Nat × String × String) := [\n")
	for i, r := range conn {
		sep := ","
		if i == len(conn)-1 {
			sep = ""
		}
		fmt.Printf("  (%d, %d, %d, %d, %d, %s, %s)%s\n", r.rcvr, r.expr, r.ce, r.cr, r.router, leanStr(r.create), leanStr(r.routerName), sep)
	}
	fmt.Print("]\n\n/-- `builders.<Kind>Builder.Create…` (kind 0 receiver, 1 processor, 2 exporter, 3 connector): (kind, signal(s) named by the builder method,\n" +
		"by the factory stability method it logs, by the factory create method whose result it returns; the second component is 0 for kinds 0–2,\n" +
		"builder method, stability method, create method) -/\n")
	fmt.Print("def builderTable : List (Nat × (Nat × Nat) × (Nat × Nat) × (Nat × Nat) × String × String × String) := [\n")
	for i, r := range bld {
		sep := ","
		if i == len(bld)-1 {
			sep = ""
		}
		fmt.Printf("  (%d, (%d, %d), (%d, %d), (%d, %d), %s, %s, %s)%s\n", r.kind, r.m[0], r.m[1], r.st[0], r.st[1], r.cr[0], r.cr[1],
			leanStr(r.name), leanStr(r.stN), leanStr(r.cN), sep)
	}
	fmt.Print("]\n\n/-- per-signal switches of the nodes: (kind, signal of the case, signal named by what is called, callee); kind 0/1/2 =\n" +
		"receiverNode/processorNode/exporterNode.buildComponent → `builder.Create<Signal>`, 4 = the receiver's `fanoutconsumer.New<Signal>`,\n" +
		"5 = capabilities node → `capabilityconsumer.New<Signal>`, 6 = fan-out node → `fanoutconsumer.New<Signal>` (both in `buildComponents`) -/\n")
	fmt.Print("def nodeTable : List (Nat × Nat × Nat × String) := [\n")
	for i, r := range nodesT {
		sep := ","
		if i == len(nodesT)-1 {
			sep = ""
		}
		fmt.Printf("  (%d, %d, %d, %s)%s\n", r.kind, r.sig, r.m, leanStr(r.name), sep)
	}
	fmt.Print("]\n\n/-- every `fmt.Errorf` / `fmt.Sprintf` format of graph.go in source order: (enclosing function, format) -/\n")
	fmt.Print("def formats : List (String × String) := [\n")
	for i, r := range errs {
		sep := ","
		if i == len(errs)-1 {
			sep = ""
		}
		fmt.Printf("  (%s, %s)%s\n", leanStr(r[0]), leanStr(r[1]), sep)
	}
	fmt.Print("]\n\nend OtelVerif.Gen.GraphDispatch\n")
}
