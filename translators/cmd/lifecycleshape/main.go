// lifecycleshape regenerates lean/OtelVerif/Gen/LifecycleShape.lean: the SHAPE of the start / stop loops that property C10 is about,
// read from
//
//	service/internal/graph/graph.go       Graph.StartAll, Graph.ShutdownAll
//	service/extensions/extensions.go      Extensions.Start, Shutdown, NotifyPipelineReady, NotifyPipelineNotReady, NotifyConfig
//	service/service.go                    Service.Start, Service.Shutdown
//
// Per loop: the direction in which the sorted sequence is walked, which node type is moved behind all others, and what the error
// branch of the component call does (return = stop at the first error, continue/append = collect and go on). Per Service method: the
// sequence of calls and what an error of each does. Nothing else is extracted. Any unexpected shape makes the program exit 2.
package main

import (
	"fmt"
	"go/ast"
	"go/parser"
	"go/token"
	"os"
	"path/filepath"
	"strings"
)

func die(format string, a ...any) {
	fmt.Fprintf(os.Stderr, "lifecycleshape: "+format+"\n", a...)
	os.Exit(2)
}

func parse(repo, rel string) *ast.File {
	f, err := parser.ParseFile(token.NewFileSet(), filepath.Join(repo, rel), nil, 0)
	if err != nil {
		die("%v", err)
	}
	return f
}

func recvName(fd *ast.FuncDecl) string {
	if fd.Recv == nil || len(fd.Recv.List) != 1 {
		return ""
	}
	t := fd.Recv.List[0].Type
	if st, ok := t.(*ast.StarExpr); ok {
		t = st.X
	}
	if id, ok := t.(*ast.Ident); ok {
		return id.Name
	}
	return ""
}

func findFunc(f *ast.File, recv, name string) *ast.FuncDecl {
	for _, d := range f.Decls {
		if fd, ok := d.(*ast.FuncDecl); ok && fd.Name.Name == name && recvName(fd) == recv {
			return fd
		}
	}
	die("func (%s) %s not found", recv, name)
	return nil
}

// selPath: a.b.c(...) -> "a.b.c"
func selPath(e ast.Expr) string {
	switch x := e.(type) {
	case *ast.Ident:
		return x.Name
	case *ast.SelectorExpr:
		return selPath(x.X) + "." + x.Sel.Name
	case *ast.CallExpr:
		return selPath(x.Fun)
	}
	return "?"
}

// loops: the for / range statements directly in the function body, in order
func loops(fn *ast.FuncDecl) (out []ast.Stmt) {
	for _, st := range fn.Body.List {
		switch st.(type) {
		case *ast.ForStmt, *ast.RangeStmt:
			out = append(out, st)
		}
	}
	return
}

// direction: true = the index runs downwards (`for i := len(x) - 1; i >= 0; i--`), false = `range` or an upward index
func direction(st ast.Stmt, where string) bool {
	switch x := st.(type) {
	case *ast.RangeStmt:
		return false
	case *ast.ForStmt:
		inc, ok := x.Post.(*ast.IncDecStmt)
		if !ok {
			die("%s: loop without ++/--", where)
		}
		init, ok := x.Init.(*ast.AssignStmt)
		if !ok || len(init.Rhs) != 1 {
			die("%s: loop without a simple init", where)
		}
		cond, ok := x.Cond.(*ast.BinaryExpr)
		if !ok {
			die("%s: loop without a comparison", where)
		}
		if inc.Tok == token.DEC {
			// must start at len(…)-1 and run to 0
			be, ok := init.Rhs[0].(*ast.BinaryExpr)
			if !ok || be.Op != token.SUB || !strings.HasPrefix(selPath(be.X), "len") || cond.Op != token.GEQ {
				die("%s: downward loop that does not run from len-1 to 0", where)
			}
			return true
		}
		if lit, ok := init.Rhs[0].(*ast.BasicLit); !ok || lit.Value != "0" || cond.Op != token.LSS {
			die("%s: upward loop that does not run from 0 to len-1", where)
		}
		return false
	}
	die("%s: not a loop", where)
	return false
}

func body(st ast.Stmt) *ast.BlockStmt {
	switch x := st.(type) {
	case *ast.RangeStmt:
		return x.Body
	case *ast.ForStmt:
		return x.Body
	}
	return nil
}

// deferred: inside the ordering loop, `if _, is := n.(*<T>); is { <list> = append(<list>, n); continue }` -> T
func deferred(st ast.Stmt, where string) string {
	var found []string
	for _, s := range body(st).List {
		is, ok := s.(*ast.IfStmt)
		if !ok || is.Init == nil {
			continue
		}
		as, ok := is.Init.(*ast.AssignStmt)
		if !ok || len(as.Rhs) != 1 {
			continue
		}
		ta, ok := as.Rhs[0].(*ast.TypeAssertExpr)
		if !ok {
			continue
		}
		star, ok := ta.Type.(*ast.StarExpr)
		if !ok {
			continue
		}
		if len(is.Body.List) != 2 {
			die("%s: the deferring branch has %d statements", where, len(is.Body.List))
		}
		if br, ok := is.Body.List[1].(*ast.BranchStmt); !ok || br.Tok != token.CONTINUE {
			die("%s: the deferring branch does not end in continue", where)
		}
		found = append(found, star.X.(*ast.Ident).Name)
	}
	if len(found) != 1 {
		die("%s: expected exactly one deferred node type, found %v", where, found)
	}
	return found[0]
}

// onError: in the loop, the `if err := <recv>.<method>(…); err != nil { … }` — what its body ends in
func onError(st ast.Stmt, method, where string) string {
	var res []string
	ast.Inspect(body(st), func(n ast.Node) bool {
		is, ok := n.(*ast.IfStmt)
		if !ok || is.Init == nil {
			return true
		}
		as, ok := is.Init.(*ast.AssignStmt)
		if !ok || len(as.Rhs) != 1 {
			return true
		}
		ce, ok := as.Rhs[0].(*ast.CallExpr)
		if !ok {
			return true
		}
		se, ok := ce.Fun.(*ast.SelectorExpr)
		if !ok || se.Sel.Name != method {
			return true
		}
		res = append(res, ending(is.Body, where))
		return true
	})
	if len(res) != 1 {
		die("%s: expected exactly one `if err := ….%s(…); err != nil`, found %d", where, method, len(res))
	}
	return res[0]
}

func ending(b *ast.BlockStmt, where string) string {
	if len(b.List) == 0 {
		die("%s: empty error branch", where)
	}
	switch x := b.List[len(b.List)-1].(type) {
	case *ast.ReturnStmt:
		return "return"
	case *ast.BranchStmt:
		if x.Tok == token.CONTINUE {
			if !appends(b) {
				die("%s: error branch continues without collecting the error", where)
			}
			return "continue"
		}
		if x.Tok == token.BREAK {
			return "break"
		}
	case *ast.AssignStmt:
		if appends(b) {
			return "continue" // collected; the loop / method goes on
		}
	}
	die("%s: error branch ends in something else than return / continue / errs = multierr.Append(…)", where)
	return ""
}

func appends(b *ast.BlockStmt) bool {
	ok := false
	ast.Inspect(b, func(n ast.Node) bool {
		if ce, is := n.(*ast.CallExpr); is && selPath(ce.Fun) == "multierr.Append" {
			ok = true
		}
		return true
	})
	return ok
}

// skipsNonComponents: the run loop starts with `comp, ok := node.(component.Component); if !ok { continue }`
func skipsNonComponents(st ast.Stmt, where string) {
	l := body(st).List
	if len(l) < 2 {
		die("%s: run loop too short", where)
	}
	as, ok := l[0].(*ast.AssignStmt)
	if !ok || len(as.Rhs) != 1 {
		die("%s: run loop does not start with the component.Component assertion", where)
	}
	ta, ok := as.Rhs[0].(*ast.TypeAssertExpr)
	if !ok || selPath(ta.Type) != "component.Component" {
		die("%s: run loop does not start with the component.Component assertion", where)
	}
	is, ok := l[1].(*ast.IfStmt)
	if !ok || len(is.Body.List) != 1 {
		die("%s: no `if !ok { continue }` after the assertion", where)
	}
	if br, ok := is.Body.List[0].(*ast.BranchStmt); !ok || br.Tok != token.CONTINUE {
		die("%s: no `if !ok { continue }` after the assertion", where)
	}
}

// graphLoop: ordering loop (direction, deferred type, appended after) + run loop (error action)
func graphLoop(fn *ast.FuncDecl, method string) (rev bool, def string, act string) {
	where := "Graph." + fn.Name.Name
	ls := loops(fn)
	if len(ls) != 2 {
		die("%s: expected an ordering loop and a run loop, found %d loops", where, len(ls))
	}
	rev = direction(ls[0], where)
	def = deferred(ls[0], where)
	// between the loops: `<order> = append(<order>, <deferred>...)`
	n := 0
	for _, st := range fn.Body.List {
		if as, ok := st.(*ast.AssignStmt); ok && len(as.Rhs) == 1 {
			if ce, ok := as.Rhs[0].(*ast.CallExpr); ok && selPath(ce.Fun) == "append" && ce.Ellipsis != token.NoPos {
				n++
			}
		}
	}
	if n != 1 {
		die("%s: the deferred nodes are not appended exactly once after the others", where)
	}
	if direction(ls[1], where) {
		die("%s: run loop walks backwards", where)
	}
	skipsNonComponents(ls[1], where)
	act = onError(ls[1], method, where)
	return
}

// serviceSeq: the calls `srv.host.<X>.<M>(…)` of the method in source order and what an error does
func serviceSeq(fn *ast.FuncDecl) (out [][2]string) {
	where := "Service." + fn.Name.Name
	ast.Inspect(fn.Body, func(n ast.Node) bool {
		is, ok := n.(*ast.IfStmt)
		if !ok || is.Init == nil {
			return true
		}
		as, ok := is.Init.(*ast.AssignStmt)
		if !ok || len(as.Rhs) != 1 {
			return true
		}
		ce, ok := as.Rhs[0].(*ast.CallExpr)
		if !ok {
			return true
		}
		p := selPath(ce.Fun)
		if !strings.HasPrefix(p, "srv.host.") {
			return true
		}
		out = append(out, [2]string{strings.TrimPrefix(p, "srv.host."), ending(is.Body, where)})
		return true
	})
	return
}

// hook: NotifyPipelineReady / NotifyPipelineNotReady / NotifyConfig: forward over extensionIDs; error of the hook call returns or is collected
func hook(fn *ast.FuncDecl, call string) string {
	where := "Extensions." + fn.Name.Name
	ls := loops(fn)
	if len(ls) != 1 || direction(ls[0], where) {
		die("%s: expected one forward loop", where)
	}
	var res []string
	ast.Inspect(body(ls[0]), func(n ast.Node) bool {
		switch x := n.(type) {
		case *ast.IfStmt:
			if x.Init != nil {
				if as, ok := x.Init.(*ast.AssignStmt); ok && len(as.Rhs) == 1 {
					if ce, ok := as.Rhs[0].(*ast.CallExpr); ok {
						if se, ok := ce.Fun.(*ast.SelectorExpr); ok && se.Sel.Name == call {
							res = append(res, ending(x.Body, where))
						}
					}
				}
			}
		case *ast.AssignStmt:
			if len(x.Rhs) == 1 {
				if ce, ok := x.Rhs[0].(*ast.CallExpr); ok && selPath(ce.Fun) == "multierr.Append" && len(ce.Args) == 2 {
					if inner, ok := ce.Args[1].(*ast.CallExpr); ok {
						if se, ok := inner.Fun.(*ast.SelectorExpr); ok && se.Sel.Name == call {
							res = append(res, "continue")
						}
					}
				}
			}
		}
		return true
	})
	if len(res) != 1 {
		die("%s: expected exactly one call of %s, found %d", where, call, len(res))
	}
	return res[0]
}

func extLoop(fn *ast.FuncDecl, method string) (bool, string) {
	where := "Extensions." + fn.Name.Name
	ls := loops(fn)
	if len(ls) != 1 {
		die("%s: expected one loop, found %d", where, len(ls))
	}
	// the loop must walk bes.extensionIDs
	walks := false
	ast.Inspect(ls[0], func(n ast.Node) bool {
		if se, ok := n.(*ast.SelectorExpr); ok && se.Sel.Name == "extensionIDs" {
			walks = true
		}
		return true
	})
	if !walks {
		die("%s: the loop does not walk extensionIDs", where)
	}
	return direction(ls[0], where), onError(ls[0], method, where)
}

func b(x bool) string {
	if x {
		return "true"
	}
	return "false"
}

func main() {
	// an AST that is not of the expected form may also surface as a failed type assertion: same verdict, exit 2
	defer func() {
		if r := recover(); r != nil {
			die("unexpected shape: %v", r)
		}
	}()
	if len(os.Args) < 2 {
		die("usage: lifecycleshape <repo>")
	}
	repo := os.Args[1]
	gf := parse(repo, "service/internal/graph/graph.go")
	ef := parse(repo, "service/extensions/extensions.go")
	sf := parse(repo, "service/service.go")

	sRev, sDef, sAct := graphLoop(findFunc(gf, "Graph", "StartAll"), "Start")
	tRev, tDef, tAct := graphLoop(findFunc(gf, "Graph", "ShutdownAll"), "Shutdown")
	xsRev, xsAct := extLoop(findFunc(ef, "Extensions", "Start"), "Start")
	xtRev, xtAct := extLoop(findFunc(ef, "Extensions", "Shutdown"), "Shutdown")
	ready := hook(findFunc(ef, "Extensions", "NotifyPipelineReady"), "Ready")
	notReady := hook(findFunc(ef, "Extensions", "NotifyPipelineNotReady"), "NotReady")
	notify := hook(findFunc(ef, "Extensions", "NotifyConfig"), "NotifyConfig")
	start := serviceSeq(findFunc(sf, "Service", "Start"))
	stop := serviceSeq(findFunc(sf, "Service", "Shutdown"))

	stops := func(act, where string) string { // "return" -> true (stops at the first error), "continue" -> false; anything else is unknown
		switch act {
		case "return":
			return "true"
		case "continue":
			return "false"
		}
		die("%s: error action %q is neither return nor continue", where, act)
		return ""
	}
	nodeCode := func(t, where string) int {
		switch t {
		case "receiverNode":
			return 0
		case "processorNode":
			return 1
		case "exporterNode":
			return 2
		case "connectorNode":
			return 3
		}
		die("%s: deferred node type %q unknown", where, t)
		return -1
	}
	callCode := map[string]int{"ServiceExtensions.Start": 0, "ServiceExtensions.NotifyConfig": 1, "Pipelines.StartAll": 2,
		"ServiceExtensions.NotifyPipelineReady": 3, "ServiceExtensions.NotifyPipelineNotReady": 4, "Pipelines.ShutdownAll": 5,
		"ServiceExtensions.Shutdown": 6}

	fmt.Print("/- GENERATED by /verif/translators/cmd/lifecycleshape from service/internal/graph/graph.go, service/extensions/extensions.go and\n" +
		"   service/service.go — do not edit.  `…StopsAtError`: true = the loop / method returns at the first error, false = the error is\n" +
		"   collected (multierr.Append) and the loop / method goes on.  Node type codes: 0 receiverNode, 1 processorNode, 2 exporterNode,\n" +
		"   3 connectorNode.  Call codes: 0 ServiceExtensions.Start, 1 ServiceExtensions.NotifyConfig, 2 Pipelines.StartAll,\n" +
		"   3 ServiceExtensions.NotifyPipelineReady, 4 ServiceExtensions.NotifyPipelineNotReady, 5 Pipelines.ShutdownAll, 6 ServiceExtensions.Shutdown. -/\n" +
		"namespace OtelVerif.Gen.LifecycleShape\n\n")
	fmt.Printf("/-- `Graph.StartAll`: the ordering loop walks the `topo.Sort` result backwards; node type moved behind all others (%s); error of `comp.Start` (%s) -/\n", sDef, sAct)
	fmt.Printf("def startAllReverse : Bool := %s\ndef startAllDeferred : Nat := %d\ndef startAllStopsAtError : Bool := %s\n\n", b(sRev), nodeCode(sDef, "StartAll"), stops(sAct, "StartAll"))
	fmt.Printf("/-- `Graph.ShutdownAll`, likewise (%s; `comp.Shutdown`: %s) -/\n", tDef, tAct)
	fmt.Printf("def shutdownAllReverse : Bool := %s\ndef shutdownAllDeferred : Nat := %d\ndef shutdownAllStopsAtError : Bool := %s\n\n", b(tRev), nodeCode(tDef, "ShutdownAll"), stops(tAct, "ShutdownAll"))
	fmt.Printf("/-- `Extensions.Start` / `Extensions.Shutdown`: direction over `extensionIDs`, error of `ext.Start` (%s) / `ext.Shutdown` (%s) -/\n", xsAct, xtAct)
	fmt.Printf("def extStartReverse : Bool := %s\ndef extStartStopsAtError : Bool := %s\ndef extShutdownReverse : Bool := %s\ndef extShutdownStopsAtError : Bool := %s\n\n",
		b(xsRev), stops(xsAct, "Extensions.Start"), b(xtRev), stops(xtAct, "Extensions.Shutdown"))
	fmt.Printf("/-- the hooks (forward loops over `extensionIDs`): error of `Ready` (%s) / `NotReady` (%s) / `NotifyConfig` (%s) -/\n", ready, notReady, notify)
	fmt.Printf("def readyStopsAtError : Bool := %s\ndef notReadyStopsAtError : Bool := %s\ndef notifyConfigStopsAtError : Bool := %s\n\n",
		stops(ready, "Ready"), stops(notReady, "NotReady"), stops(notify, "NotifyConfig"))
	pr := func(name, doc string, l [][2]string) {
		fmt.Printf("/-- %s:", doc)
		for _, r := range l {
			fmt.Printf(" %s (%s);", r[0], r[1])
		}
		fmt.Printf(" rows (call code, returns at its error) -/\ndef %s : List (Nat × Bool) := [", name)
		for i, r := range l {
			if i > 0 {
				fmt.Print(", ")
			}
			c, ok := callCode[r[0]]
			if !ok {
				die("%s: unknown call srv.host.%s", name, r[0])
			}
			fmt.Printf("(%d, %s)", c, stops(r[1], name))
		}
		fmt.Print("]\n\n")
	}
	pr("serviceStart", "`Service.Start`, the calls on `srv.host` in source order", start)
	pr("serviceShutdown", "`Service.Shutdown`, likewise", stop)
	fmt.Print("end OtelVerif.Gen.LifecycleShape\n")
}
