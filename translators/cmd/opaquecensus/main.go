// opaquecensus regenerates lean/OtelVerif/Gen/OpaqueCensus.lean: a census (go/ast, stdlib only) of
//
//	fields       every struct field of every non-test Go file of the repository whose type mentions configopaque.String:
//	             package directory, struct, field, exported?, mapstructure key, omitempty?, and the SHAPE of the type
//	             (opq | other | ptr | slice | array | map key value)
//	conversions  every place where an opaque value is converted to its underlying text (`string(x)`, `[]byte(x)`) — the only
//	             operation that yields the secret (property clause "explicit conversion returns the secret"): file, function,
//	             kind, expression, and the call the text is handed to
//	passes       every call that receives a still-typed opaque value (or a container of them) as an argument
//
// Opaque expressions are found by a local analysis: selectors of census fields, parameters and variables declared with an
// opaque type, range variables over / index expressions into opaque containers, `:=` from any of these.
// Files are visited in sorted order; an expression shape the analysis does not know (a census field name that is declared
// with two different shapes) is exit 2.
package main

import (
	"bytes"
	"fmt"
	"go/ast"
	"go/parser"
	"go/printer"
	"go/token"
	"os"
	"path/filepath"
	"reflect"
	"regexp"
	"sort"
	"strconv"
	"strings"
)

const opaquePath = "go.opentelemetry.io/collector/config/configopaque"

func die(format string, a ...any) {
	fmt.Fprintf(os.Stderr, "opaquecensus: "+format+"\n", a...)
	os.Exit(2)
}

func str(n any) string {
	var b bytes.Buffer
	if err := printer.Fprint(&b, token.NewFileSet(), n); err != nil {
		die("%v", err)
	}
	return strings.Join(strings.Fields(b.String()), " ")
}

// shape of a type expression; nil when it does not mention the opaque type
type shape struct {
	kind string // opq other ptr slice array map
	a, b *shape
}

func (s *shape) lean() string {
	switch s.kind {
	case "opq", "other":
		return "." + s.kind
	case "map":
		return "(.map " + s.a.lean() + " " + s.b.lean() + ")"
	}
	return "(." + s.kind + " " + s.a.lean() + ")"
}

func (s *shape) has() bool {
	if s == nil {
		return false
	}
	return s.kind == "opq" || s.a.has() || s.b.has()
}

func typeShape(e ast.Expr, alias string) *shape {
	switch x := e.(type) {
	case *ast.SelectorExpr:
		if id, ok := x.X.(*ast.Ident); ok && id.Name == alias && x.Sel.Name == "String" {
			return &shape{kind: "opq"}
		}
	case *ast.StarExpr:
		return &shape{kind: "ptr", a: typeShape(x.X, alias)}
	case *ast.ArrayType:
		if x.Len == nil {
			return &shape{kind: "slice", a: typeShape(x.Elt, alias)}
		}
		return &shape{kind: "array", a: typeShape(x.Elt, alias)}
	case *ast.MapType:
		return &shape{kind: "map", a: typeShape(x.Key, alias), b: typeShape(x.Value, alias)}
	case *ast.Ellipsis:
		return &shape{kind: "slice", a: typeShape(x.Elt, alias)}
	case *ast.ParenExpr:
		return typeShape(x.X, alias)
	}
	return &shape{kind: "other"}
}

type field struct {
	pkg, strct, name, key string
	exported, omit        bool
	sh                    *shape
}

type srcFile struct {
	rel   string
	f     *ast.File
	alias string // local name of the configopaque import, "" when the file does not import it
}

const modulePrefix = "go.opentelemetry.io/collector/"

func main() {
	repo := os.Args[1]
	var files []srcFile
	err := filepath.Walk(repo, func(p string, info os.FileInfo, err error) error {
		if err != nil {
			return err
		}
		if info.IsDir() {
			n := info.Name()
			if n == ".git" || n == "vendor" || n == "testdata" || n == "node_modules" {
				return filepath.SkipDir
			}
			return nil
		}
		if !strings.HasSuffix(p, ".go") || strings.HasSuffix(p, "_test.go") {
			return nil
		}
		rel, _ := filepath.Rel(repo, p)
		if strings.HasPrefix(rel, "config/configopaque/") {
			return nil // the type itself: translators/cmd/opaquemethods
		}
		src, err := os.ReadFile(p)
		if err != nil {
			return err
		}
		if !bytes.Contains(src, []byte(modulePrefix)) {
			return nil
		}
		f, err := parser.ParseFile(token.NewFileSet(), p, src, 0)
		if err != nil {
			return nil // templates and the like
		}
		alias := ""
		for _, im := range f.Imports {
			if v, _ := strconv.Unquote(im.Path.Value); v == opaquePath {
				alias = "configopaque"
				if im.Name != nil {
					alias = im.Name.Name
				}
			}
		}
		if alias == "_" || alias == "." {
			die("%s imports configopaque as %q", rel, alias)
		}
		files = append(files, srcFile{rel, f, alias})
		return nil
	})
	if err != nil {
		die("%v", err)
	}
	sort.Slice(files, func(i, j int) bool { return files[i].rel < files[j].rel })

	// ---- fields
	var fields []field
	byName := map[string]*shape{}
	for _, sf := range files {
		if sf.alias == "" {
			continue
		}
		for _, d := range sf.f.Decls {
			gd, ok := d.(*ast.GenDecl)
			if !ok || gd.Tok != token.TYPE {
				continue
			}
			for _, s := range gd.Specs {
				ts := s.(*ast.TypeSpec)
				ast.Inspect(ts.Type, func(n ast.Node) bool {
					st, ok := n.(*ast.StructType)
					if !ok {
						return true
					}
					for _, fl := range st.Fields.List {
						sh := typeShape(fl.Type, sf.alias)
						if !sh.has() {
							continue
						}
						key, omit := "", false
						if fl.Tag != nil {
							raw, _ := strconv.Unquote(fl.Tag.Value)
							parts := strings.Split(reflect.StructTag(raw).Get("mapstructure"), ",")
							key = parts[0]
							for _, o := range parts[1:] {
								if o == "omitempty" {
									omit = true
								}
							}
						}
						if len(fl.Names) == 0 {
							die("%s: struct %s embeds an opaque type", sf.rel, ts.Name.Name)
						}
						for _, nm := range fl.Names {
							fields = append(fields, field{filepath.Dir(sf.rel), ts.Name.Name, nm.Name, key, ast.IsExported(nm.Name), omit, sh})
							if old, ok := byName[nm.Name]; ok && old.lean() != sh.lean() {
								die("field name %s is declared with two shapes (%s, %s): the local analysis cannot tell them apart", nm.Name, old.lean(), sh.lean())
							}
							byName[nm.Name] = sh
						}
					}
					return true
				})
			}
		}
	}

	// ---- conversions and passes
	type site struct{ file, fn, kind, expr, ctx string }
	var convs, passes, methods []site
	// a directory is analysed when one of its files imports configopaque or a package that declares a census field
	// (census field names are resolved by name: elsewhere a selector `.Headers` is some other type's field)
	censusPkg := map[string]bool{}
	for _, f := range fields {
		censusPkg[modulePrefix+f.pkg] = true
	}
	relevant := map[string]bool{}
	for _, sf := range files {
		for _, im := range sf.f.Imports {
			v, _ := strconv.Unquote(im.Path.Value)
			if v == opaquePath || censusPkg[v] {
				relevant[filepath.Dir(sf.rel)] = true
			}
		}
		if censusPkg[modulePrefix+filepath.Dir(sf.rel)] {
			relevant[filepath.Dir(sf.rel)] = true
		}
	}
	for _, sf := range files {
		if !relevant[filepath.Dir(sf.rel)] {
			continue
		}
		if sf.alias == "" {
			sf.alias = "\x00" // no type expression of this file can name the opaque type
		}
		for _, d := range sf.f.Decls {
			fd, ok := d.(*ast.FuncDecl)
			if !ok || fd.Body == nil {
				continue
			}
			env := map[string]*shape{}
			bindParams := func(fl *ast.FieldList) {
				if fl == nil {
					return
				}
				for _, p := range fl.List {
					if sh := typeShape(p.Type, sf.alias); sh.has() {
						for _, n := range p.Names {
							env[n.Name] = sh
						}
					}
				}
			}
			bindParams(fd.Recv)
			bindParams(fd.Type.Params)
			var shapeOf func(e ast.Expr) *shape
			shapeOf = func(e ast.Expr) *shape {
				switch x := e.(type) {
				case *ast.Ident:
					return env[x.Name]
				case *ast.SelectorExpr:
					return byName[x.Sel.Name]
				case *ast.IndexExpr:
					if s := shapeOf(x.X); s != nil {
						switch s.kind {
						case "map":
							return s.b
						case "slice", "array":
							return s.a
						}
					}
				case *ast.ParenExpr:
					return shapeOf(x.X)
				case *ast.StarExpr:
					if s := shapeOf(x.X); s != nil && s.kind == "ptr" {
						return s.a
					}
				case *ast.UnaryExpr:
					if x.Op == token.AND {
						if s := shapeOf(x.X); s != nil {
							return &shape{kind: "ptr", a: s}
						}
					}
				}
				return nil
			}
			bind := func(lhs ast.Expr, s *shape) {
				if id, ok := lhs.(*ast.Ident); ok && id.Name != "_" && s.has() {
					env[id.Name] = s
				}
			}
			fname := fd.Name.Name
			if fd.Recv != nil && len(fd.Recv.List) == 1 {
				fname = strings.TrimPrefix(str(fd.Recv.List[0].Type), "*") + "." + fname
			}
			var stack []ast.Node
			ast.Inspect(fd.Body, func(n ast.Node) bool {
				if n == nil {
					stack = stack[:len(stack)-1]
					return true
				}
				stack = append(stack, n)
				switch x := n.(type) {
				case *ast.FuncLit:
					bindParams(x.Type.Params)
				case *ast.RangeStmt:
					if s := shapeOf(x.X); s != nil {
						switch s.kind {
						case "map":
							if x.Key != nil {
								bind(x.Key, s.a)
							}
							if x.Value != nil {
								bind(x.Value, s.b)
							}
						case "slice", "array":
							if x.Value != nil {
								bind(x.Value, s.a)
							}
						}
					}
				case *ast.AssignStmt:
					if len(x.Rhs) == 1 && len(x.Lhs) >= 1 {
						if s := shapeOf(x.Rhs[0]); s != nil {
							bind(x.Lhs[0], s)
						}
					} else if len(x.Rhs) == len(x.Lhs) {
						for i := range x.Rhs {
							if s := shapeOf(x.Rhs[i]); s != nil {
								bind(x.Lhs[i], s)
							}
						}
					}
				case *ast.ValueSpec:
					if x.Type != nil {
						if s := typeShape(x.Type, sf.alias); s.has() {
							for _, nm := range x.Names {
								env[nm.Name] = s
							}
						}
					}
				case *ast.CallExpr:
					kind := ""
					if id, ok := x.Fun.(*ast.Ident); ok && id.Name == "string" {
						kind = "string"
					}
					if at, ok := x.Fun.(*ast.ArrayType); ok && at.Len == nil && str(at.Elt) == "byte" {
						kind = "[]byte"
					}
					if kind != "" && len(x.Args) == 1 {
						if s := shapeOf(x.Args[0]); s != nil && s.kind == "opq" {
							ctx := "-"
							for i := len(stack) - 2; i >= 0; i-- { // the nearest enclosing call or assignment: where the text goes
								if c, ok := stack[i].(*ast.CallExpr); ok {
									ctx = str(c.Fun)
									break
								}
								if as, ok := stack[i].(*ast.AssignStmt); ok && len(as.Lhs) >= 1 {
									ctx = "= " + str(as.Lhs[0])
									break
								}
							}
							convs = append(convs, site{sf.rel, fname, kind, str(x.Args[0]), ctx})
						}
						return true
					}
					// a METHOD of the opaque type called on an opaque value (x.String(), x.MarshalText() …) yields the marker, never
					// the secret: code that needs the text must convert; such a call on a use path sends / stores "[REDACTED]"
					if sel, ok := x.Fun.(*ast.SelectorExpr); ok {
						if s := shapeOf(sel.X); s != nil && s.kind == "opq" {
							ctx := "-"
							for i := len(stack) - 2; i >= 0; i-- {
								if c, ok := stack[i].(*ast.CallExpr); ok {
									ctx = str(c.Fun)
									break
								}
							}
							methods = append(methods, site{sf.rel, fname, "method", str(x), ctx})
						}
					}
					if id, ok := x.Fun.(*ast.Ident); ok && (id.Name == "len" || id.Name == "cap" || id.Name == "make" || id.Name == "delete") {
						return true
					}
					for _, a := range x.Args {
						if s := shapeOf(a); s.has() {
							passes = append(passes, site{sf.rel, fname, "arg", str(a), str(x.Fun)})
						}
					}
				}
				return true
			})
		}
	}

	// ---- renders: log / format calls that are handed a whole configuration value (by NAME: an identifier or selector whose last
	// name is cfg / config / conf / oCfg) — the places where a configuration struct, secrets included, is rendered
	var renders []site
	reCallee := regexp.MustCompile(`^(fmt|zap|log|slog)\.|\.(Info|Debug|Warn|Error|Fatal|Panic|DPanic|Print|Sprint|Fprint|Log)(f|w|ln)?$|\.(Errorf|With|Named)$`)
	isCfgName := func(e ast.Expr) bool {
		if u, ok := e.(*ast.UnaryExpr); ok && u.Op == token.AND {
			e = u.X
		}
		if st, ok := e.(*ast.StarExpr); ok {
			e = st.X
		}
		name := ""
		switch x := e.(type) {
		case *ast.Ident:
			name = x.Name
		case *ast.SelectorExpr:
			name = x.Sel.Name
		}
		switch strings.ToLower(name) {
		case "cfg", "config", "conf", "ocfg", "rcfg", "ecfg", "pcfg":
			return true
		}
		return false
	}
	for _, sf := range files {
		if strings.HasPrefix(sf.rel, "cmd/mdatagen/") || strings.HasPrefix(sf.rel, "cmd/builder/") || strings.Contains(sf.rel, "/internal/e2e/") || strings.HasPrefix(sf.rel, "internal/e2e/") {
			continue
		}
		for _, d := range sf.f.Decls {
			fd, ok := d.(*ast.FuncDecl)
			if !ok || fd.Body == nil {
				continue
			}
			fname := fd.Name.Name
			if fd.Recv != nil && len(fd.Recv.List) == 1 {
				fname = strings.TrimPrefix(str(fd.Recv.List[0].Type), "*") + "." + fname
			}
			ast.Inspect(fd.Body, func(n ast.Node) bool {
				c, ok := n.(*ast.CallExpr)
				if !ok || !reCallee.MatchString(str(c.Fun)) {
					return true
				}
				for _, a := range c.Args {
					if isCfgName(a) {
						renders = append(renders, site{sf.rel, fname, "render", str(a), str(c.Fun)})
					}
				}
				return true
			})
		}
	}

	q := strconv.Quote
	fmt.Printf("/- GENERATED by /verif/translators/cmd/opaquecensus — do not edit. -/\nimport OtelVerif.Model.C14CensusTypes\nnamespace OtelVerif.Gen.OpaqueCensus\nopen OtelVerif.C14\n\n")
	fmt.Printf("/-- every struct field of the repository (non-test files) whose type mentions `configopaque.String` -/\ndef fields : List CField := [\n")
	for i, f := range fields {
		sep := ","
		if i == len(fields)-1 {
			sep = ""
		}
		fmt.Printf("  { pkg := %s, owner := %s, field := %s, exported := %v, key := %s, omitEmpty := %v, shape := %s }%s\n",
			q(f.pkg), q(f.strct), q(f.name), f.exported, q(f.key), f.omit, f.sh.lean(), sep)
	}
	fmt.Printf("]\n\n")
	emit := func(name, doc string, ss []site) {
		fmt.Printf("/-- %s -/\ndef %s : List Site := [\n", doc, name)
		for i, s := range ss {
			sep := ","
			if i == len(ss)-1 {
				sep = ""
			}
			fmt.Printf("  { file := %s, fn := %s, kind := %s, expr := %s, ctx := %s }%s\n", q(s.file), q(s.fn), q(s.kind), q(s.expr), q(s.ctx), sep)
		}
		fmt.Printf("]\n\n")
	}
	emit("conversions", "every conversion of an opaque value to its text: `string(x)` / `[]byte(x)`; `ctx` = the call the text is handed to", convs)
	emit("passes", "every call that receives a still-typed opaque value or a container of them; `ctx` = the callee", passes)
	emit("methodCalls", "every call of a method of the opaque type on an opaque value outside package configopaque (it yields the marker)", methods)
	emit("renders", "every log / format call that is handed a whole configuration value (argument named cfg / config / conf …); `ctx` = the callee", renders)
	fmt.Printf("end OtelVerif.Gen.OpaqueCensus\n")
}
