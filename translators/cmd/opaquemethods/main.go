// opaquemethods regenerates lean/OtelVerif/Gen/Opaque.lean from config/configopaque/opaque.go.
//
// For every method declared on `String` it emits (name, value receiver?, kind, result expression),
// where the result expression is translated from the Go source into the tiny language `MExpr`
// (receiver | string constant | Go-quote of e | concatenation).  The expression is *translated*, not
// judged: a method that returns something computed from the receiver is emitted as such and the
// theorems in Props/C14.lean (`C14_methods_const`, …) then no longer check.  Shapes outside the
// language make the translator exit 2 ("the tie no longer checks").
package main

import (
	"fmt"
	"go/ast"
	"go/parser"
	"go/token"
	"os"
	"path/filepath"
	"strconv"
	"strings"
)

func die(format string, a ...any) {
	fmt.Fprintf(os.Stderr, "opaquemethods: "+format+"\n", a...)
	os.Exit(2)
}

func leanStr(s string) string {
	var b strings.Builder
	b.WriteByte('"')
	for _, r := range s {
		switch {
		case r == '"' || r == '\\':
			b.WriteByte('\\')
			b.WriteRune(r)
		case r == '\n':
			b.WriteString("\\n")
		case r < 0x20 || r == 0x7f:
			fmt.Fprintf(&b, "\\x%02x", r)
		default:
			b.WriteRune(r)
		}
	}
	b.WriteByte('"')
	return b.String()
}

type tr struct {
	recv   string
	consts map[string]string
}

func isSel(e ast.Expr, pkg, name string) bool {
	se, ok := e.(*ast.SelectorExpr)
	if !ok {
		return false
	}
	id, ok := se.X.(*ast.Ident)
	return ok && id.Name == pkg && se.Sel.Name == name
}

// expr translates a Go string/[]byte valued expression into MExpr syntax.
func (t *tr) expr(e ast.Expr) string {
	switch x := e.(type) {
	case *ast.ParenExpr:
		return t.expr(x.X)
	case *ast.Ident:
		if x.Name == t.recv && t.recv != "" && t.recv != "_" {
			return "MExpr.recv"
		}
		if v, ok := t.consts[x.Name]; ok {
			return "(MExpr.lit " + leanStr(v) + ")"
		}
		die("identifier %q in a method result is neither the receiver nor a string constant of the file", x.Name)
	case *ast.BasicLit:
		if x.Kind != token.STRING {
			die("non-string literal %s in a method result", x.Value)
		}
		v, err := strconv.Unquote(x.Value)
		if err != nil {
			die("%v", err)
		}
		return "(MExpr.lit " + leanStr(v) + ")"
	case *ast.BinaryExpr:
		if x.Op != token.ADD {
			die("operator %s in a method result", x.Op)
		}
		return "(MExpr.cat " + t.expr(x.X) + " " + t.expr(x.Y) + ")"
	case *ast.CallExpr:
		// conversions string(e), []byte(e)
		if id, ok := x.Fun.(*ast.Ident); ok && id.Name == "string" && len(x.Args) == 1 {
			return t.expr(x.Args[0])
		}
		if at, ok := x.Fun.(*ast.ArrayType); ok && at.Len == nil && len(x.Args) == 1 {
			if id, ok := at.Elt.(*ast.Ident); ok && id.Name == "byte" {
				return t.expr(x.Args[0])
			}
		}
		// fmt.Sprintf("%#v", e)  == Go-syntax quotation of the string e
		if isSel(x.Fun, "fmt", "Sprintf") && len(x.Args) == 2 {
			if bl, ok := x.Args[0].(*ast.BasicLit); ok && bl.Value == `"%#v"` {
				return "(MExpr.goQuote " + t.expr(x.Args[1]) + ")"
			}
		}
		die("unsupported call in a method result")
	}
	die("unsupported expression %T in a method result", e)
	return ""
}

func main() {
	repo := os.Args[1]
	path := filepath.Join(repo, "config/configopaque/opaque.go")
	f, err := parser.ParseFile(token.NewFileSet(), path, nil, 0)
	if err != nil {
		die("%v", err)
	}
	consts := map[string]string{}
	typeOK := false
	for _, d := range f.Decls {
		gd, ok := d.(*ast.GenDecl)
		if !ok {
			continue
		}
		for _, s := range gd.Specs {
			switch sp := s.(type) {
			case *ast.ValueSpec:
				if gd.Tok != token.CONST {
					continue
				}
				for i, n := range sp.Names {
					if i < len(sp.Values) {
						if bl, ok := sp.Values[i].(*ast.BasicLit); ok && bl.Kind == token.STRING {
							v, _ := strconv.Unquote(bl.Value)
							consts[n.Name] = v
						}
					}
				}
			case *ast.TypeSpec:
				if sp.Name.Name == "String" {
					if id, ok := sp.Type.(*ast.Ident); ok && id.Name == "string" && !sp.Assign.IsValid() {
						typeOK = true
					}
				}
			}
		}
	}
	if !typeOK {
		die("`type String string` not found (the model assumes a defined type of string kind)")
	}
	marker, ok := consts["maskedString"]
	if !ok {
		die("const maskedString not found")
	}
	type method struct {
		name     string
		valueRcv bool
		kind     string // ret | format
		expr     string
	}
	var ms []method
	for _, d := range f.Decls {
		fd, ok := d.(*ast.FuncDecl)
		if !ok || fd.Recv == nil || len(fd.Recv.List) != 1 {
			continue
		}
		rt := fd.Recv.List[0].Type
		valueRcv := true
		if st, ok := rt.(*ast.StarExpr); ok {
			rt = st.X
			valueRcv = false
		}
		id, ok := rt.(*ast.Ident)
		if !ok || id.Name != "String" {
			continue
		}
		recv := ""
		if len(fd.Recv.List[0].Names) == 1 {
			recv = fd.Recv.List[0].Names[0].Name
		}
		t := &tr{recv: recv, consts: consts}
		m := method{name: fd.Name.Name, valueRcv: valueRcv}
		if fd.Body == nil || len(fd.Body.List) != 1 {
			die("method %s: body is not a single statement", fd.Name.Name)
		}
		switch st := fd.Body.List[0].(type) {
		case *ast.ReturnStmt:
			if len(st.Results) < 1 || len(st.Results) > 2 {
				die("method %s: unexpected number of results", m.name)
			}
			if len(st.Results) == 2 {
				if id, ok := st.Results[1].(*ast.Ident); !ok || id.Name != "nil" {
					die("method %s: second result is not nil", m.name)
				}
			}
			m.kind = "ret"
			m.expr = t.expr(st.Results[0])
		case *ast.ExprStmt:
			// Format(f fmt.State, verb rune) { fmt.Fprintf(f, fmt.FormatString(f, verb), <expr>) }
			call, ok := st.X.(*ast.CallExpr)
			if !ok || m.name != "Format" || !isSel(call.Fun, "fmt", "Fprintf") || len(call.Args) != 3 {
				die("method %s: statement is not `fmt.Fprintf(f, fmt.FormatString(f, verb), e)`", m.name)
			}
			params := fd.Type.Params.List
			var pn []string
			for _, p := range params {
				for _, n := range p.Names {
					pn = append(pn, n.Name)
				}
			}
			if len(pn) != 2 {
				die("Format: expected two parameters")
			}
			a0, ok0 := call.Args[0].(*ast.Ident)
			fs, ok1 := call.Args[1].(*ast.CallExpr)
			if !ok0 || !ok1 || a0.Name != pn[0] || !isSel(fs.Fun, "fmt", "FormatString") || len(fs.Args) != 2 {
				die("Format: not a delegation through fmt.FormatString")
			}
			b0, okb0 := fs.Args[0].(*ast.Ident)
			b1, okb1 := fs.Args[1].(*ast.Ident)
			if !okb0 || !okb1 || b0.Name != pn[0] || b1.Name != pn[1] {
				die("Format: fmt.FormatString is not applied to the method's own state and verb")
			}
			m.kind = "format"
			m.expr = t.expr(call.Args[2])
		default:
			die("method %s: unsupported statement %T", m.name, st)
		}
		ms = append(ms, m)
	}
	if len(ms) == 0 {
		die("no methods on String found")
	}
	var b strings.Builder
	b.WriteString("/- GENERATED by /verif/translators/cmd/opaquemethods from config/configopaque/opaque.go — do not edit. -/\n")
	b.WriteString("import OtelVerif.Model.C14Types\nnamespace OtelVerif.Gen.Opaque\nopen OtelVerif.C14\n\n")
	fmt.Fprintf(&b, "/-- `const maskedString` -/\ndef marker : String := %s\n\n", leanStr(marker))
	b.WriteString("/-- every method declared on `configopaque.String`, in source order: what it returns (or, for\n`Format`, the operand it re-formats with the caller's verb and flags) as an expression over the receiver -/\n")
	b.WriteString("def methods : List Method := [\n")
	for i, m := range ms {
		sep := ","
		if i == len(ms)-1 {
			sep = ""
		}
		k := "MKind.ret"
		if m.kind == "format" {
			k = "MKind.formatDelegate"
		}
		fmt.Fprintf(&b, "  { name := %s, valueRecv := %v, kind := %s, result := %s }%s\n", leanStr(m.name), m.valueRcv, k, m.expr, sep)
	}
	b.WriteString("]\n\nend OtelVerif.Gen.Opaque\n")
	fmt.Print(b.String())
}
