package main

// entry.go (C08 round 2): the GLUE between the modelled codec core and the public API. For every public entry point of the four
// signals — p<x>/pb.go ProtoMarshaler/ProtoUnmarshaler, p<x>/json.go JSONMarshaler/JSONUnmarshaler, p<x>otlp/request.go and
// response.go ExportRequest/ExportResponse.{Marshal,Unmarshal}{Proto,JSON} — the ordered list of the STEPS its body performs,
// classified by a closed vocabulary (Marshal, Unmarshal, Size, json.Marshal, BorrowIterator, ReturnIterator, unmarshalJsoniter,
// iter.Error, Migrate, delegate:<payload root>); constructors / conversions / buffer accessors are dropped; any other call is emitted as
// "?<name>" and makes the Lean theorem C08_entry_points_tie fail (the model's encode / decodeRoot / fromJsonRoot would have to
// be re-inspected).

import (
	"fmt"
	"go/ast"
	"go/types"
	"path/filepath"
	"strings"
)

func exprStr(e ast.Expr) string { return types.ExprString(e) }

var entrySignals = []struct{ dir, root, data string }{
	{"plog", "logs", "Logs"}, {"pmetric", "metrics", "Metrics"}, {"ptrace", "traces", "Traces"}, {"pprofile", "profiles", "Profiles"},
}

type entryPoint struct {
	root, op string
	steps    []string
}

func entrySteps(fd *ast.FuncDecl, data, payloadRoot string) []string {
	var steps []string
	ast.Inspect(fd.Body, func(n ast.Node) bool {
		switch x := n.(type) {
		case *ast.SelectorExpr:
			if id, ok := x.X.(*ast.Ident); ok && id.Name == "iter" && x.Sel.Name == "Error" {
				if len(steps) == 0 || steps[len(steps)-1] != "iter.Error" {
					steps = append(steps, "iter.Error")
				}
			}
		case *ast.CallExpr:
			name, recv := "", ""
			switch f := x.Fun.(type) {
			case *ast.SelectorExpr:
				name = f.Sel.Name
				if id, ok := f.X.(*ast.Ident); ok {
					recv = id.Name
				}
			case *ast.Ident:
				name = f.Name
			default:
				return true
			}
			switch {
			case name == "Marshal" && recv == "json":
				steps = append(steps, "json.Marshal")
			case name == "Marshal" || name == "Unmarshal" || name == "Size" || name == "BorrowIterator" || name == "ReturnIterator" || name == "unmarshalJsoniter":
				steps = append(steps, name)
			case strings.HasPrefix(name, "Migrate") && recv == "otlp":
				steps = append(steps, "Migrate")
			case name == "Unmarshal"+data && recv == "jsonUnmarshaler":
				steps = append(steps, "delegate:"+payloadRoot) // ExportRequest.UnmarshalJSON → the payload's JSONUnmarshaler
			case strings.HasPrefix(name, "New"), strings.HasPrefix(name, "GetOrig"), strings.HasPrefix(name, "Get"+data), name == "getOrig",
				strings.HasSuffix(name, "ToProto"), strings.HasSuffix(name, "FromProto"), name == "Bytes", name == data, name == "new"+data:
				// constructors, conversions between the wrapper and the proto struct, buf.Bytes()
			default:
				steps = append(steps, "?"+name)
			}
		}
		return true
	})
	return steps
}

func loadEntryPoints(repo string) []entryPoint {
	var out []entryPoint
	for _, sg := range entrySignals {
		dir := filepath.Join(repo, "pdata", sg.dir)
		type src struct {
			file, recv, root string
			ops              map[string]string // method name ↦ op
		}
		srcs := []src{
			{filepath.Join(dir, "pb.go"), "ProtoMarshaler", sg.root, map[string]string{"Marshal" + sg.data: "pbenc", sg.data + "Size": "size"}},
			{filepath.Join(dir, "pb.go"), "ProtoUnmarshaler", sg.root, map[string]string{"Unmarshal" + sg.data: "pbdec"}},
			{filepath.Join(dir, "json.go"), "JSONMarshaler", sg.root, map[string]string{"Marshal" + sg.data: "jenc"}},
			{filepath.Join(dir, "json.go"), "JSONUnmarshaler", sg.root, map[string]string{"Unmarshal" + sg.data: "jdec"}},
			{filepath.Join(dir, sg.dir+"otlp", "request.go"), "ExportRequest", sg.root + "req",
				map[string]string{"MarshalProto": "pbenc", "UnmarshalProto": "pbdec", "MarshalJSON": "jenc", "UnmarshalJSON": "jdec"}},
			{filepath.Join(dir, sg.dir+"otlp", "response.go"), "ExportResponse", sg.root + "resp",
				map[string]string{"MarshalProto": "pbenc", "UnmarshalProto": "pbdec", "MarshalJSON": "jenc", "UnmarshalJSON": "jdec"}},
		}
		for _, s := range srcs {
			file := parse(s.file)
			seen := map[string]bool{}
			for _, decl := range file.Decls {
				fd, ok := decl.(*ast.FuncDecl)
				if !ok || fd.Recv == nil || fd.Body == nil || recvName(fd) != s.recv {
					continue
				}
				op, ok := s.ops[fd.Name.Name]
				if !ok {
					if s.recv == "ProtoMarshaler" && strings.HasSuffix(fd.Name.Name, "Size") {
						op = "size:" + fd.Name.Name // sub-message sizers
					} else {
						continue
					}
				}
				check(!seen[op], "%s: two methods of %s for %s", s.file, s.recv, op)
				seen[op] = true
				out = append(out, entryPoint{s.root, op, entrySteps(fd, sg.data, sg.root)})
			}
			for _, op := range s.ops {
				check(seen[op], "%s: public entry point of %s for %q not found", s.file, s.recv, op)
			}
		}
	}
	return out
}

func entryLean(eps []entryPoint) string {
	var b strings.Builder
	b.WriteString("/-- public entry point (root, operation) ↦ the ordered steps of its body (closed vocabulary; `?name` = a call the translator does not know) -/\n")
	b.WriteString("def entryPoints : List (String × String × List String) := [\n")
	for i, e := range eps {
		var q []string
		for _, s := range e.steps {
			q = append(q, fmt.Sprintf("%q", s))
		}
		sp := ",\n"
		if i == len(eps)-1 {
			sp = "\n"
		}
		fmt.Fprintf(&b, "  (%q, %q, [%s])%s", e.root, e.op, strings.Join(q, ", "), sp)
	}
	b.WriteString("]\n\n")
	return b.String()
}

// loadJSONPBConfig: the fields of the `jsonpb.Marshaler{…}` literal in pdata/internal/json/json.go (the configuration `toJ` models:
// enums as numbers, camelCase names, defaults omitted, no indentation) and the body of json.Marshal (must be `marshaler.Marshal(out, pb)`).
func loadJSONPBConfig(repo string) [][2]string {
	path := filepath.Join(repo, "pdata/internal/json/json.go")
	file := parse(path)
	var cfg [][2]string
	found, marshalOK := false, false
	for _, decl := range file.Decls {
		switch d := decl.(type) {
		case *ast.GenDecl:
			for _, sp := range d.Specs {
				vs, ok := sp.(*ast.ValueSpec)
				if !ok || len(vs.Names) != 1 || vs.Names[0].Name != "marshaler" || len(vs.Values) != 1 {
					continue
				}
				ue, ok := vs.Values[0].(*ast.UnaryExpr)
				check(ok, "%s: marshaler is not &jsonpb.Marshaler{…}", path)
				cl, ok := ue.X.(*ast.CompositeLit)
				check(ok && exprStr(cl.Type) == "jsonpb.Marshaler", "%s: marshaler is not a jsonpb.Marshaler literal", path)
				for _, e := range cl.Elts {
					kv, ok := e.(*ast.KeyValueExpr)
					check(ok, "%s: positional field in the jsonpb.Marshaler literal", path)
					cfg = append(cfg, [2]string{exprStr(kv.Key), exprStr(kv.Value)})
				}
				found = true
			}
		case *ast.FuncDecl:
			if d.Name.Name == "Marshal" && d.Recv == nil && d.Body != nil && len(d.Body.List) == 1 {
				if r, ok := d.Body.List[0].(*ast.ReturnStmt); ok && len(r.Results) == 1 && exprStr(r.Results[0]) == "marshaler.Marshal(out, pb)" {
					marshalOK = true
				}
			}
		}
	}
	check(found, "%s: var marshaler not found", path)
	check(marshalOK, "%s: func Marshal is no longer `return marshaler.Marshal(out, pb)`", path)
	return cfg
}
