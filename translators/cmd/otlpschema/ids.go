package main

// ids.go: the fixed-size id types of pdata/internal/data (traceid.go, spanid.go, profileid.go, bytesid.go) — C08 round 2.
// The SIZE of each id type is read from its `const <x>Size = N` / `type T [<x>Size]byte` (it used to be a table in this
// program) and the straight-line code of the six methods + the two JSON helpers is compared, after renaming the type, the size
// constant, the receiver and the two error variables, with the shape the Lean model (`Ty.id n` in enc/decLeaf/leafJson/readLeaf)
// was written against. Any other shape: exit 2.

import (
	"bytes"
	"go/ast"
	"go/printer"
	"go/token"
	"path/filepath"
	"strconv"
	"strings"
)

var idFiles = []struct{ file, typ string }{{"traceid.go", "TraceID"}, {"spanid.go", "SpanID"}, {"profileid.go", "ProfileID"}}

// normalised bodies (receiver `id`, type `ID`, size constant `idSize`, errors errMarshalID / errUnmarshalID)
var idMethodShape = map[string]string{
	"Size":          "func (id ID) Size() int {\n\tif id.IsEmpty() {\n\t\treturn 0\n\t}\n\treturn idSize\n}",
	"IsEmpty":       "func (id ID) IsEmpty() bool {\n\treturn id == [idSize]byte{}\n}",
	"MarshalTo":     "func (id ID) MarshalTo(data []byte) (n int, err error) {\n\tif id.IsEmpty() {\n\t\treturn 0, nil\n\t}\n\n\tif len(data) < idSize {\n\t\treturn 0, errMarshalID\n\t}\n\n\treturn copy(data, id[:]), nil\n}",
	"Unmarshal":     "func (id *ID) Unmarshal(data []byte) error {\n\tif len(data) == 0 {\n\t\t*id = [idSize]byte{}\n\t\treturn nil\n\t}\n\n\tif len(data) != idSize {\n\t\treturn errUnmarshalID\n\t}\n\n\tcopy(id[:], data)\n\treturn nil\n}",
	"MarshalJSON":   "func (id ID) MarshalJSON() ([]byte, error) {\n\tif id.IsEmpty() {\n\t\treturn []byte(`\"\"`), nil\n\t}\n\treturn marshalJSON(id[:])\n}",
	"UnmarshalJSON": "func (id *ID) UnmarshalJSON(data []byte) error {\n\t*id = [idSize]byte{}\n\treturn unmarshalJSON(id[:], data)\n}",
}

var idHelperShape = map[string]string{
	"marshalJSON":   "func marshalJSON(id []byte) ([]byte, error) {\n\n\thexLen := hex.EncodedLen(len(id)) + 2\n\n\tb := make([]byte, hexLen)\n\thex.Encode(b[1:hexLen-1], id)\n\tb[0], b[hexLen-1] = '\"', '\"'\n\n\treturn b, nil\n}",
	"unmarshalJSON": "func unmarshalJSON(dst []byte, src []byte) error {\n\tif l := len(src); l >= 2 && src[0] == '\"' && src[l-1] == '\"' {\n\t\tsrc = src[1 : l-1]\n\t}\n\tnLen := len(src)\n\tif nLen == 0 {\n\t\treturn nil\n\t}\n\n\tif len(dst) != hex.DecodedLen(nLen) {\n\t\treturn errors.New(\"invalid length for ID\")\n\t}\n\n\t_, err := hex.Decode(dst, src)\n\tif err != nil {\n\t\treturn fmt.Errorf(\"cannot unmarshal ID from string '%s': %w\", string(src), err)\n\t}\n\treturn nil\n}",
}

func printDecl(fset *token.FileSet, fd *ast.FuncDecl) string {
	fd.Doc = nil
	var b bytes.Buffer
	check(printer.Fprint(&b, fset, fd) == nil, "cannot print %s", fd.Name.Name)
	return b.String()
}

// loadIDs returns Go type ("data.TraceID") ↦ size, after checking the code shape.
func loadIDs(repo string) map[string]int {
	dir := filepath.Join(repo, "pdata/internal/data")
	out := map[string]int{}
	for _, idf := range idFiles {
		path := filepath.Join(dir, idf.file)
		fset := token.NewFileSet()
		file := parseIn(fset, path)
		sizeConst, size := "", -1
		for _, decl := range file.Decls {
			gd, ok := decl.(*ast.GenDecl)
			if !ok {
				continue
			}
			for _, sp := range gd.Specs {
				switch s := sp.(type) {
				case *ast.TypeSpec:
					if s.Name.Name != idf.typ {
						continue
					}
					at, ok := s.Type.(*ast.ArrayType)
					check(ok && at.Len != nil, "%s: type %s is not a fixed-size array", path, idf.typ)
					ln, ok := at.Len.(*ast.Ident)
					el, ok2 := at.Elt.(*ast.Ident)
					check(ok && ok2 && el.Name == "byte", "%s: type %s is not [<const>]byte", path, idf.typ)
					sizeConst = ln.Name
				}
			}
		}
		check(sizeConst != "", "%s: type %s not found", path, idf.typ)
		for _, decl := range file.Decls {
			gd, ok := decl.(*ast.GenDecl)
			if !ok || gd.Tok != token.CONST {
				continue
			}
			for _, sp := range gd.Specs {
				vs := sp.(*ast.ValueSpec)
				for i, n := range vs.Names {
					if n.Name == sizeConst && i < len(vs.Values) {
						bl, ok := vs.Values[i].(*ast.BasicLit)
						check(ok && bl.Kind == token.INT, "%s: const %s is not an integer literal", path, sizeConst)
						v, err := strconv.Atoi(bl.Value)
						check(err == nil && v > 0 && v <= 64, "%s: const %s = %s out of range", path, sizeConst, bl.Value)
						size = v
					}
				}
			}
		}
		check(size > 0, "%s: const %s not found", path, sizeConst)
		seen := map[string]bool{}
		for _, decl := range file.Decls {
			fd, ok := decl.(*ast.FuncDecl)
			if !ok {
				continue
			}
			check(fd.Recv != nil && recvName(fd) == idf.typ, "%s: unexpected function %s (not a method of %s)", path, fd.Name.Name, idf.typ)
			want, ok := idMethodShape[fd.Name.Name]
			check(ok, "%s: unexpected method %s.%s — extend the id model (Ty.id) and idMethodShape", path, idf.typ, fd.Name.Name)
			recv := ""
			if len(fd.Recv.List[0].Names) == 1 {
				recv = fd.Recv.List[0].Names[0].Name
			}
			ast.Inspect(fd, func(n ast.Node) bool {
				if id, ok := n.(*ast.Ident); ok {
					switch id.Name {
					case recv:
						id.Name = "id"
					case idf.typ:
						id.Name = "ID"
					case sizeConst:
						id.Name = "idSize"
					case "errMarshal" + idf.typ:
						id.Name = "errMarshalID"
					case "errUnmarshal" + idf.typ:
						id.Name = "errUnmarshalID"
					}
				}
				return true
			})
			got := printDecl(fset, fd)
			check(got == want, "%s: %s.%s no longer has the modelled shape:\n%s\n-- expected --\n%s", path, idf.typ, fd.Name.Name, got, want)
			seen[fd.Name.Name] = true
		}
		for m := range idMethodShape {
			check(seen[m], "%s: method %s.%s not found", path, idf.typ, m)
		}
		out["data."+idf.typ] = size
	}
	path := filepath.Join(dir, "bytesid.go")
	fset := token.NewFileSet()
	file := parseIn(fset, path)
	seen := map[string]bool{}
	for _, decl := range file.Decls {
		fd, ok := decl.(*ast.FuncDecl)
		if !ok {
			continue
		}
		want, ok := idHelperShape[fd.Name.Name]
		check(ok && fd.Recv == nil, "%s: unexpected function %s", path, fd.Name.Name)
		got := printDecl(fset, fd)
		check(strings.TrimSpace(got) == strings.TrimSpace(want), "%s: %s no longer has the modelled shape:\n%s\n-- expected --\n%s", path, fd.Name.Name, got, want)
		seen[fd.Name.Name] = true
	}
	for m := range idHelperShape {
		check(seen[m], "%s: helper %s not found", path, m)
	}
	return out
}
