// otlpschema regenerates lean/OtelVerif/Gen/OtlpSchema.lean (C08) from
//   - pdata/internal/data/protogen/**/*.pb.go: struct tags, one-of wrappers, <Enum>_value maps
//   - the hand-written jsoniter readers under pdata/: case labels of the key switch in ReadObjectCB
//
// Conventions: .scratch/C08/SPEC.md §0/§1. Only data is extracted. If the source no longer has the
// expected shape the program exits 2 ("the tie no longer checks").
package main

import (
	"fmt"
	"go/ast"
	"go/parser"
	"go/token"
	"go/types"
	"io/fs"
	"os"
	"path/filepath"
	"reflect"
	"sort"
	"strconv"
	"strings"
)

func die(format string, a ...any) {
	fmt.Fprintf(os.Stderr, "otlpschema: "+format+"\n", a...)
	os.Exit(2)
}

func check(cond bool, format string, a ...any) {
	if !cond {
		die(format, a...)
	}
}

type field struct {
	num                int
	goName, json, orig string
	ty, ref            string // ty: Lean constructor ("u64", "id 16", …) or "msg"/"enum" with ref = qualified name
	card               string // "" (= .opt), "req", "rep", "packed"
}

type slot struct {
	oneof string  // Go field name of the one-of; "" for a plain field
	alts  []field // ascending by number; exactly one for a plain field
}

type message struct {
	name  string
	slots []slot
	keys  []string
	cases []readerCase
}

// readerCase: one `case` clause of a hand-written JSON reader — its labels, the Go field of the message it assigns
// (first field / one-of alternative named in the clause body) and the reader helpers it calls (sorted, unique).
type readerCase struct {
	labels []string
	target string
	calls  []string
}

type enumVal struct {
	name string
	val  int
}

var (
	msgs  = map[string]*message{}
	enums = map[string][]enumVal{}
)

var scalar = map[string]string{
	"varint uint64": "u64", "varint int64": "i64", "varint uint32": "u32", "varint int32": "i32", "varint bool": "bool",
	"zigzag32 int32": "s32", "fixed64 uint64": "fixed64", "fixed64 int64": "sfixed64", "fixed64 float64": "double",
	"fixed32 uint32": "fixed32", "bytes string": "string", "bytes []byte": "bytes",
}

var idLen = map[string]int{"data.TraceID": 16, "data.SpanID": 8, "data.ProfileID": 16}

// pkgdir maps "common/v1" → "common", "collector/logs/v1" → "collectorlogs".
func pkgdir(rel string) string {
	p := strings.Split(filepath.ToSlash(rel), "/")
	if p[0] == "collector" && len(p) > 1 {
		return "collector" + p[1]
	}
	return p[0]
}

func parse(path string) *ast.File {
	f, err := parser.ParseFile(token.NewFileSet(), path, nil, 0)
	check(err == nil, "%v", err)
	return f
}

func recvName(fd *ast.FuncDecl) string {
	if fd.Recv == nil || len(fd.Recv.List) != 1 {
		return ""
	}
	return strings.TrimPrefix(types.ExprString(fd.Recv.List[0].Type), "*")
}

// ---------------------------------------------------------------- protogen

type pbFile struct {
	path, pkg string
	imports   map[string]string          // import alias → pkgdir
	structs   map[string]*ast.StructType // every struct with at least one protobuf tag
	order     []string                   // their names in source order
	wrappers  map[string]bool            // listed in some XXX_OneofWrappers
	markers   map[string]string          // type → name of its `is<Msg>_<X>()` marker method
}

func tagOf(f *ast.Field, key string) (string, bool) {
	if f.Tag == nil {
		return "", false
	}
	s, err := strconv.Unquote(f.Tag.Value)
	check(err == nil, "bad struct tag %s", f.Tag.Value)
	return reflect.StructTag(s).Lookup(key)
}

func tagged(st *ast.StructType) bool {
	for _, f := range st.Fields.List {
		_, a := tagOf(f, "protobuf")
		_, b := tagOf(f, "protobuf_oneof")
		if a || b {
			return true
		}
	}
	return false
}

func loadPB(root, path string) *pbFile {
	rel, _ := filepath.Rel(root, filepath.Dir(path))
	p := &pbFile{path: path, pkg: pkgdir(rel), imports: map[string]string{}, structs: map[string]*ast.StructType{},
		wrappers: map[string]bool{}, markers: map[string]string{}}
	f := parse(path)
	for _, im := range f.Imports {
		ip, _ := strconv.Unquote(im.Path.Value)
		if i := strings.Index(ip, "/protogen/"); i >= 0 && im.Name != nil {
			p.imports[im.Name.Name] = pkgdir(ip[i+len("/protogen/"):])
		}
	}
	for _, d := range f.Decls {
		switch d := d.(type) {
		case *ast.GenDecl:
			for _, s := range d.Specs {
				if ts, ok := s.(*ast.TypeSpec); ok {
					if st, ok := ts.Type.(*ast.StructType); ok && tagged(st) {
						p.structs[ts.Name.Name] = st
						p.order = append(p.order, ts.Name.Name)
					}
				}
				if vs, ok := s.(*ast.ValueSpec); ok && d.Tok == token.VAR && len(vs.Names) == 1 && len(vs.Values) == 1 {
					if en, ok := strings.CutSuffix(vs.Names[0].Name, "_value"); ok {
						p.loadEnum(en, vs.Values[0])
					}
				}
			}
		case *ast.FuncDecl:
			w := recvName(d)
			switch {
			case w == "":
			case d.Name.Name == "XXX_OneofWrappers":
				ast.Inspect(d, func(n ast.Node) bool { // elements look like (*Msg_Alt)(nil)
					if c, ok := n.(*ast.CallExpr); ok {
						if pe, ok := c.Fun.(*ast.ParenExpr); ok {
							p.wrappers[strings.TrimPrefix(types.ExprString(pe.X), "*")] = true
						}
					}
					return true
				})
			case strings.HasPrefix(d.Name.Name, "is") && len(d.Type.Params.List) == 0 && d.Type.Results == nil:
				check(p.markers[w] == "", "%s: %s has two one-of marker methods", path, w)
				p.markers[w] = d.Name.Name
			}
		}
	}
	return p
}

func (p *pbFile) loadEnum(goName string, v ast.Expr) {
	name := p.pkg + "." + goName
	lit, ok := v.(*ast.CompositeLit)
	check(ok && enums[name] == nil, "%s: %s_value is not a composite literal, or is defined twice", p.path, goName)
	_, ok = lit.Type.(*ast.MapType)
	check(ok && len(lit.Elts) > 0, "%s: %s_value is not a non-empty map literal", p.path, goName)
	for _, el := range lit.Elts {
		kv, _ := el.(*ast.KeyValueExpr)
		check(kv != nil, "%s: %s_value: element is not key: value", p.path, goName)
		k, ok1 := kv.Key.(*ast.BasicLit)
		val, ok2 := kv.Value.(*ast.BasicLit)
		check(ok1 && ok2 && k.Kind == token.STRING && val.Kind == token.INT, "%s: %s_value: entry is not \"NAME\": <non-negative int literal>", p.path, goName)
		n, _ := strconv.Unquote(k.Value)
		i, err := strconv.Atoi(val.Value)
		check(err == nil, "%s: %s_value: %v", p.path, goName, err)
		enums[name] = append(enums[name], enumVal{n, i})
	}
	vs := enums[name]
	sort.Slice(vs, func(i, j int) bool { return vs[i].val < vs[j].val || vs[i].val == vs[j].val && vs[i].name < vs[j].name })
}

// qualify turns a Go type name as written in this file into "<pkgdir>.<Type>".
func (p *pbFile) qualify(t, where string) string {
	alias, name, sel := strings.Cut(t, ".")
	if !sel {
		return p.pkg + "." + t
	}
	check(p.imports[alias] != "", "%s: unknown import alias in type %s", where, t)
	return p.imports[alias] + "." + name
}

// parseField interprets one `protobuf:"…"` tag; inOneof says whether fl is the single field of a one-of wrapper.
func (p *pbFile) parseField(where string, fl *ast.Field, tag string, inOneof bool) field {
	check(len(fl.Names) == 1, "%s: tagged field without exactly one name", where)
	where += "." + fl.Names[0].Name
	goType := types.ExprString(fl.Type)
	parts := strings.Split(tag, ",")
	check(len(parts) >= 4, "%s: short protobuf tag %q", where, tag)
	wire, rep := parts[0], parts[2] == "rep"
	num, err := strconv.Atoi(parts[1])
	check(err == nil && num > 0, "%s: bad field number in %q", where, tag)
	check(rep || parts[2] == "opt", "%s: label %q is neither opt nor rep", where, parts[2])
	f := field{num: num, goName: fl.Names[0].Name}
	var packed, oneof, isEnum bool
	custom := ""
	for _, o := range parts[3:] {
		switch k, v, _ := strings.Cut(o, "="); k {
		case "name":
			f.orig = v
		case "json":
			f.json = v
		case "proto3":
		case "packed":
			packed = true
		case "oneof":
			oneof = true
		case "enum":
			isEnum = true
		case "customtype":
			custom = v[strings.LastIndexByte(v, '/')+1:] // "data.TraceID"
		default:
			die("%s: unknown tag option %q", where, o)
		}
	}
	check(f.orig != "", "%s: tag without name=", where)
	if f.json == "" {
		f.json = f.orig
	}
	check(oneof == inOneof && !(inOneof && (rep || packed)), "%s: one-of flag / label of tag %q does not fit its position", where, tag)
	t := goType
	if rep {
		check(strings.HasPrefix(t, "[]"), "%s: rep field of non-slice type %s", where, t)
		t = t[2:]
	}
	t, ptr := strings.CutPrefix(t, "*")
	named := token.IsIdentifier(strings.Replace(t, ".", "_", 1)) && (strings.Contains(t, ".") || types.Universe.Lookup(t) == nil)
	switch {
	case isEnum && custom == "" && wire == "varint" && named:
		f.ty, f.ref = "enum", p.qualify(t, where)
	case !isEnum && custom != "" && wire == "bytes" && idLen[custom] > 0 && strings.HasSuffix(t, strings.TrimPrefix(custom, "data")):
		f.ty = "id " + strconv.Itoa(idLen[custom])
	case !isEnum && custom == "" && scalar[wire+" "+t] != "":
		f.ty = scalar[wire+" "+t]
	case !isEnum && custom == "" && wire == "bytes" && named:
		f.ty, f.ref = "msg", p.qualify(t, where)
	default:
		die("%s: unknown wire kind / Go type combination: tag %q, type %s", where, tag, goType)
	}
	isID, isMsg := strings.HasPrefix(f.ty, "id "), f.ty == "msg"
	check(!ptr || isMsg && (rep || inOneof), "%s: pointer type %s outside a one-of / repeated message field", where, goType)
	check(!(inOneof && isMsg && !ptr), "%s: message alternative of a one-of is not a pointer", where)
	switch {
	case inOneof:
	case rep && packed && !isID && !isMsg && f.ty != "string" && f.ty != "bytes":
		f.card = "packed"
	case rep && !packed && !isID:
		f.card = "rep"
	case rep || packed:
		die("%s: unsupported repeated shape: tag %q, type %s", where, tag, goType)
	case isMsg || isID:
		f.card = "req"
	}
	return f
}

func (p *pbFile) build() {
	used := map[string]bool{}
	for _, name := range p.order {
		if p.wrappers[name] {
			continue
		}
		m := &message{name: p.pkg + "." + name}
		for _, fl := range p.structs[name].Fields.List {
			if tag, ok := tagOf(fl, "protobuf"); ok {
				m.slots = append(m.slots, slot{alts: []field{p.parseField(m.name, fl, tag, false)}})
				continue
			}
			if _, ok := tagOf(fl, "protobuf_oneof"); !ok {
				continue
			}
			iface := types.ExprString(fl.Type)
			check(len(fl.Names) == 1 && strings.HasPrefix(iface, "is"+name+"_"), "%s: one-of field is not of an interface type is%s_<X>", m.name, name)
			s := slot{oneof: fl.Names[0].Name}
			for w := range p.wrappers {
				if p.markers[w] != iface {
					continue
				}
				st := p.structs[w]
				check(st != nil && len(st.Fields.List) == 1 && strings.HasPrefix(w, name+"_"), "%s: one-of wrapper %s: not exactly one tagged field / not named %s_<Alt>", m.name, w, name)
				tag, ok := tagOf(st.Fields.List[0], "protobuf")
				check(ok && !used[w], "%s: one-of wrapper %s: field without protobuf tag, or wrapper used twice", m.name, w)
				used[w] = true
				s.alts = append(s.alts, p.parseField(m.name+"/"+w, st.Fields.List[0], tag, true))
			}
			check(len(s.alts) > 0, "%s: one-of %s has no alternatives", m.name, s.oneof)
			sort.Slice(s.alts, func(i, j int) bool { return s.alts[i].num < s.alts[j].num })
			m.slots = append(m.slots, s)
		}
		// marshal order: by field number, a one-of at the position of its largest alternative
		key := func(s slot) int { return s.alts[len(s.alts)-1].num }
		sort.SliceStable(m.slots, func(i, j int) bool { return key(m.slots[i]) < key(m.slots[j]) })
		seen := map[int]bool{}
		for _, s := range m.slots {
			for _, a := range s.alts {
				check(!seen[a.num], "%s: field number %d used twice", m.name, a.num)
				seen[a.num] = true
			}
		}
		check(msgs[m.name] == nil, "duplicate message %s", m.name)
		msgs[m.name] = m
	}
	for w := range p.wrappers {
		check(used[w], "%s: one-of wrapper %s cannot be attributed to a one-of field (marker method %q)", p.path, w, p.markers[w])
	}
}

// ---------------------------------------------------------------- JSON readers

var signals = []struct{ dir, pkg, x, top, same string }{
	{"plog", "logs", "Logs", "Logs", "ResourceLogs ScopeLogs LogRecord"},
	{"pmetric", "metrics", "Metrics", "Metrics", "ResourceMetrics ScopeMetrics Metric Sum Gauge Histogram ExponentialHistogram Summary " +
		"NumberDataPoint HistogramDataPoint ExponentialHistogramDataPoint SummaryDataPoint Exemplar"},
	{"ptrace", "trace", "Trace", "Traces", "ResourceSpans ScopeSpans Span Status"},
	{"pprofile", "profiles", "Profiles", "Profiles", "ResourceProfiles ScopeProfiles Profile ValueType Sample Mapping Location Line " +
		"Function AttributeUnit Link"},
}

// readerOf: "<dir under pdata>.<receiver type | function name>" → message (completed by initTables)
var readerOf = map[string]string{
	"pmetric.ExponentialHistogramDataPointBuckets": "metrics.ExponentialHistogramDataPoint_Buckets",
	"pmetric.SummaryDataPointValueAtQuantile":      "metrics.SummaryDataPoint_ValueAtQuantile",
	"ptrace.SpanLink": "trace.Span_Link", "ptrace.SpanEvent": "trace.Span_Event",
	"internal/json.ReadAttribute": "common.KeyValue", "internal/json.ReadValue": "common.AnyValue",
	"internal/json.readArray": "common.ArrayValue", "internal/json.readKvlistValue": "common.KeyValueList",
	"internal/json.ReadResource": "resource.Resource", "internal/json.ReadScope": "common.InstrumentationScope",
}

var (
	roots  [][2]string           // alias → message, in output order
	copyOf = map[string]string{} // request message → the *Data message whose reader reads it
)

func initTables() {
	var req, resp [][2]string
	for _, s := range signals {
		data, coll, alias := s.pkg+"."+s.top+"Data", "collector"+s.pkg+".Export"+s.x, strings.ToLower(s.top)
		readerOf[s.dir+"."+s.top] = data
		for _, t := range strings.Fields(s.same) {
			readerOf[s.dir+"."+t] = s.pkg + "." + t
		}
		readerOf[s.dir+"/"+s.dir+"otlp.ExportResponse"] = coll + "ServiceResponse"
		readerOf[s.dir+"/"+s.dir+"otlp.ExportPartialSuccess"] = coll + "PartialSuccess"
		copyOf[coll+"ServiceRequest"] = data
		roots = append(roots, [2]string{alias, data})
		req = append(req, [2]string{alias + "req", coll + "ServiceRequest"})
		resp = append(resp, [2]string{alias + "resp", coll + "ServiceResponse"})
	}
	roots = append(append(roots, req...), resp...)
}

// readerCalls: the helper calls that decide HOW a JSON value is read. Anything else in a clause (append, AppendEmpty,
// ReportError, Sprintf, SetEmpty*, conversions) is not a reader and is ignored.
var readerCalls = map[string]bool{
	"json.ReadUint64": true, "json.ReadInt64": true, "json.ReadUint32": true, "json.ReadInt32": true, "json.ReadFloat64": true,
	"json.ReadEnumValue": true, "json.ReadAttribute": true, "json.ReadValue": true, "json.ReadResource": true, "json.ReadScope": true,
	"iter.ReadString": true, "iter.ReadBool": true, "iter.ReadInt32": true, "iter.ReadUint32": true, "iter.ReadInt64": true,
	"iter.ReadUint64": true, "iter.ReadFloat64": true, "iter.ReadStringAsSlice": true, "iter.ReadArrayCB": true,
	"base64.DecodeString": true, "UnmarshalJSON": true, "unmarshalJsoniter": true, "readArray": true, "readKvlistValue": true,
}

// callName normalises a call to one of the readerCalls names ("" if it is not one). localFns: functions of the same file
// (a clause may go through a one-line local helper such as readAggregationTemporality: its calls are inlined).
func callName(c *ast.CallExpr, inJSONPkg bool) string {
	switch f := c.Fun.(type) {
	case *ast.SelectorExpr:
		x, _ := f.X.(*ast.Ident)
		switch {
		case f.Sel.Name == "DecodeString":
			return "base64.DecodeString"
		case f.Sel.Name == "UnmarshalJSON" || f.Sel.Name == "unmarshalJsoniter":
			return f.Sel.Name
		case x != nil && x.Name == "json":
			return "json." + f.Sel.Name
		case x != nil && strings.HasPrefix(f.Sel.Name, "Read"):
			return "iter." + f.Sel.Name // every jsoniter.Iterator variable: iter, or the callback parameter
		}
	case *ast.Ident:
		if inJSONPkg && strings.HasPrefix(f.Name, "Read") {
			return "json." + f.Name
		}
		return f.Name
	}
	return ""
}

// analyseClause finds the reader calls and the assigned field of one case clause. fieldNames: Go names of the plain fields
// and one-of alternatives of the message.
func analyseClause(where string, body []ast.Stmt, fieldNames map[string]bool, localFns map[string]*ast.FuncDecl, inJSONPkg bool) (string, []string) {
	calls := map[string]bool{}
	var targets []string
	addTarget := func(n string) {
		n = strings.TrimPrefix(n, "SetEmpty")
		if fieldNames[n] {
			for _, t := range targets {
				if t == n {
					return
				}
			}
			targets = append(targets, n)
		}
	}
	var visit func(n ast.Node, depth int)
	visit = func(root ast.Node, depth int) {
		ast.Inspect(root, func(n ast.Node) bool {
			switch x := n.(type) {
			case *ast.CallExpr:
				name := callName(x, inJSONPkg)
				if readerCalls[name] {
					calls[name] = true
				} else if fd := localFns[name]; fd != nil && depth == 0 && fd.Body != nil {
					visit(fd.Body, 1) // one-line local helper
				}
				if se, ok := x.Fun.(*ast.SelectorExpr); ok && depth == 0 {
					addTarget(se.Sel.Name) // accessor ms.Exemplars(), ms.SetEmptySum(), dest.TraceState()
				}
			case *ast.SelectorExpr:
				if depth == 0 {
					addTarget(x.Sel.Name) // ms.orig.TimeUnixNano
				}
			case *ast.KeyValueExpr:
				if id, ok := x.Key.(*ast.Ident); ok && depth == 0 {
					addTarget(id.Name) // &otlpmetrics.NumberDataPoint_AsInt{AsInt: …}
				}
			}
			return true
		})
	}
	for _, st := range body {
		visit(st, 0)
	}
	check(len(targets) == 1, "%s: case clause assigns %d different fields of the message %v (expected exactly one)", where, len(targets), targets)
	var cs []string
	for c := range calls {
		cs = append(cs, c)
	}
	sort.Strings(cs)
	return targets[0], cs
}

// caseLabels returns the string literals of the case clauses of the outermost `switch <key>` of the
// first (outermost) ReadObjectCB callback in fd, and the per-clause analysis; nil if fd has no ReadObjectCB call.
func caseLabels(where string, fd *ast.FuncDecl, fieldNamesOf func() map[string]bool, localFns map[string]*ast.FuncDecl, inJSONPkg bool) ([]string, []readerCase) {
	var cb *ast.FuncLit
	ast.Inspect(fd.Body, func(n ast.Node) bool {
		if c, ok := n.(*ast.CallExpr); ok && cb == nil {
			if se, ok := c.Fun.(*ast.SelectorExpr); ok && se.Sel.Name == "ReadObjectCB" {
				check(len(c.Args) == 1, "%s: ReadObjectCB without exactly one argument", where)
				cb, ok = c.Args[0].(*ast.FuncLit)
				check(ok, "%s: ReadObjectCB argument is not a function literal", where)
			}
		}
		return cb == nil
	})
	if cb == nil {
		return nil, nil
	}
	ps := cb.Type.Params.List
	check(len(ps) == 2 && len(ps[1].Names) == 1, "%s: ReadObjectCB callback does not have the parameters (iter, key)", where)
	key := ps[1].Names[0].Name
	var sw *ast.SwitchStmt
	ast.Inspect(cb.Body, func(n ast.Node) bool {
		if s, ok := n.(*ast.SwitchStmt); ok && sw == nil && s.Init == nil && s.Tag != nil && types.ExprString(s.Tag) == key {
			sw = s
		}
		return sw == nil
	})
	check(sw != nil, "%s: no `switch %s` in the ReadObjectCB callback", where, key)
	keys := []string{}
	var cases []readerCase
	names := fieldNamesOf()
	for _, st := range sw.Body.List {
		cc := st.(*ast.CaseClause)
		var labels []string
		for _, e := range cc.List {
			bl, ok := e.(*ast.BasicLit)
			check(ok && bl.Kind == token.STRING, "%s: case label that is not a string literal", where)
			s, _ := strconv.Unquote(bl.Value)
			keys = append(keys, s)
			labels = append(labels, s)
		}
		if cc.List == nil { // default: must skip
			continue
		}
		if names != nil {
			target, calls := analyseClause(fmt.Sprintf("%s case %v", where, labels), cc.Body, names, localFns, inJSONPkg)
			cases = append(cases, readerCase{labels, target, calls})
		}
	}
	return keys, cases
}

func loadReaders(repo string) {
	pdata := filepath.Join(repo, "pdata")
	found := map[string]string{}
	err := filepath.WalkDir(pdata, func(path string, d fs.DirEntry, err error) error {
		if err != nil {
			return err
		}
		if n := d.Name(); d.IsDir() && (n == "protogen" || n == "testdata" || strings.HasPrefix(n, ".")) {
			return filepath.SkipDir
		}
		if d.IsDir() || !strings.HasSuffix(path, ".go") || strings.HasSuffix(path, "_test.go") {
			return nil
		}
		if src, err := os.ReadFile(path); err != nil || !strings.Contains(string(src), "ReadObjectCB") {
			return err
		}
		rel, _ := filepath.Rel(pdata, filepath.Dir(path))
		file := parse(path)
		localFns := map[string]*ast.FuncDecl{}
		for _, decl := range file.Decls {
			if fd, ok := decl.(*ast.FuncDecl); ok && fd.Recv == nil {
				localFns[fd.Name.Name] = fd
			}
		}
		inJSONPkg := filepath.ToSlash(rel) == "internal/json"
		for _, decl := range file.Decls {
			fd, ok := decl.(*ast.FuncDecl)
			if !ok || fd.Body == nil {
				continue
			}
			id := filepath.ToSlash(rel) + "." + fd.Name.Name
			if fd.Recv != nil {
				id = filepath.ToSlash(rel) + "." + recvName(fd)
			}
			mn, mapped := readerOf[id]
			names := func() map[string]bool {
				if !mapped || msgs[mn] == nil {
					return nil
				}
				out := map[string]bool{}
				for _, sl := range msgs[mn].slots {
					for _, a := range sl.alts {
						out[a.goName] = true
					}
				}
				return out
			}
			// local helpers that are readers themselves must not be inlined as "local one-liners" of their own clauses
			lf := map[string]*ast.FuncDecl{}
			for n, f := range localFns {
				if !readerCalls[n] && !(inJSONPkg && readerCalls["json."+n]) {
					lf[n] = f
				}
			}
			keys, cases := caseLabels(path+": "+id, fd, names, lf, inJSONPkg)
			if keys == nil {
				continue
			}
			check(mapped, "%s: JSON reader %s (func %s) is not mapped to a message — extend readerOf", path, id, fd.Name.Name)
			check(found[mn] == "", "two JSON readers for %s: %s and %s", mn, found[mn], id)
			check(msgs[mn] != nil, "JSON reader %s: message %s not found in protogen", id, mn)
			found[mn], msgs[mn].keys, msgs[mn].cases = id, keys, cases
		}
		return nil
	})
	check(err == nil, "%v", err)
	for id, mn := range readerOf {
		check(found[mn] == id, "JSON reader %s (for %s) not found", id, mn)
	}
	for req, data := range copyOf { // request messages are read by the reader of the *Data message
		check(msgs[req] != nil && found[req] == "", "request message %s missing or with a reader of its own", req)
		msgs[req].keys = msgs[data].keys
		msgs[req].cases = msgs[data].cases
	}
}

// loadMigrations: which public decode entry points call otlp.Migrate* — per signal the ProtoUnmarshaler (p<x>/pb.go), the
// JSONUnmarshaler (p<x>/json.go) and ExportRequest.UnmarshalProto / UnmarshalJSON (p<x>/p<x>otlp/request.go; UnmarshalJSON may
// delegate to the package's jsonUnmarshaler). Returns the root aliases for the protobuf and the JSON path.
func loadMigrations(repo string) (pb, js []string) {
	callsMigrate := func(fd *ast.FuncDecl) (migrate, delegates bool) {
		ast.Inspect(fd.Body, func(n ast.Node) bool {
			if c, ok := n.(*ast.CallExpr); ok {
				if se, ok := c.Fun.(*ast.SelectorExpr); ok {
					if x, ok := se.X.(*ast.Ident); ok {
						if x.Name == "otlp" && strings.HasPrefix(se.Sel.Name, "Migrate") {
							migrate = true
						}
						if x.Name == "jsonUnmarshaler" && strings.HasPrefix(se.Sel.Name, "Unmarshal") {
							delegates = true
						}
					}
				}
			}
			return true
		})
		return
	}
	methods := func(path, recv string) map[string]*ast.FuncDecl {
		out := map[string]*ast.FuncDecl{}
		for _, d := range parse(path).Decls {
			if fd, ok := d.(*ast.FuncDecl); ok && fd.Recv != nil && fd.Body != nil && recvName(fd) == recv {
				out[fd.Name.Name] = fd
			}
		}
		return out
	}
	for _, s := range signals {
		alias := strings.ToLower(s.top)
		dir := filepath.Join(repo, "pdata", s.dir)
		um := methods(filepath.Join(dir, "pb.go"), "ProtoUnmarshaler")["Unmarshal"+s.top]
		check(um != nil, "%s/pb.go: ProtoUnmarshaler.Unmarshal%s not found", s.dir, s.top)
		if m, _ := callsMigrate(um); m {
			pb = append(pb, alias)
		}
		uj := methods(filepath.Join(dir, "json.go"), "JSONUnmarshaler")["Unmarshal"+s.top]
		check(uj != nil, "%s/json.go: JSONUnmarshaler.Unmarshal%s not found", s.dir, s.top)
		jsonMigrates, _ := callsMigrate(uj)
		if jsonMigrates {
			js = append(js, alias)
		}
		rq := methods(filepath.Join(dir, s.dir+"otlp", "request.go"), "ExportRequest")
		check(rq["UnmarshalProto"] != nil && rq["UnmarshalJSON"] != nil, "%sotlp/request.go: ExportRequest.UnmarshalProto/UnmarshalJSON not found", s.dir)
		if m, _ := callsMigrate(rq["UnmarshalProto"]); m {
			pb = append(pb, alias+"req")
		}
		if m, d := callsMigrate(rq["UnmarshalJSON"]); m || (d && jsonMigrates) {
			js = append(js, alias+"req")
		}
	}
	return pb, js
}

// ---------------------------------------------------------------- output

func sortedIndex[V any](m map[string]V) ([]string, map[string]int) {
	var names []string
	for n := range m {
		names = append(names, n)
	}
	sort.Strings(names)
	idx := map[string]int{}
	for i, n := range names {
		idx[n] = i
	}
	return names, idx
}

func main() {
	defer func() {
		if r := recover(); r != nil {
			die("unexpected source shape (internal panic): %v", r)
		}
	}()
	check(len(os.Args) == 2, "usage: otlpschema <repo-root>")
	initTables()
	root := filepath.Join(os.Args[1], "pdata/internal/data/protogen")
	var files []*pbFile
	err := filepath.WalkDir(root, func(path string, d fs.DirEntry, err error) error {
		if err == nil && !d.IsDir() && strings.HasSuffix(path, ".pb.go") {
			files = append(files, loadPB(root, path))
		}
		return err
	})
	check(err == nil && len(files) > 0, "no *.pb.go under %s (%v)", root, err)
	for _, p := range files {
		p.build()
	}
	loadReaders(os.Args[1])

	mnames, midx := sortedIndex(msgs)
	enames, eidx := sortedIndex(enums)
	fieldStr := func(where string, f field) string {
		ty := f.ty
		if idx := map[string]map[string]int{"msg": midx, "enum": eidx}[ty]; idx != nil {
			k, ok := idx[f.ref]
			check(ok, "%s.%s: referenced %s type %s not found", where, f.goName, ty, f.ref)
			ty += " " + strconv.Itoa(k)
		}
		s := fmt.Sprintf("{ num := %d, go := %q, json := %q, orig := %q, ty := .%s", f.num, f.goName, f.json, f.orig, ty)
		if f.card != "" {
			s += ", card := ." + f.card
		}
		return s + " }"
	}
	sep := func(i, n int) string { // list separator after element i of n
		if i < n-1 {
			return ",\n"
		}
		return "\n"
	}
	var b strings.Builder
	b.WriteString("import OtelVerif.Model.Proto\n/-! GENERATED by translators/cmd/otlpschema from pdata/internal/data/protogen/** and the hand-written JSON readers. Do not edit. -/\n")
	b.WriteString("namespace OtelVerif.Gen.OtlpSchema\nopen OtelVerif.Proto\n\ndef msgs : List Msg := [\n")
	for i, n := range mnames {
		var ss, ks []string
		for _, s := range msgs[n].slots {
			if s.oneof == "" {
				ss = append(ss, "      .one "+fieldStr(n, s.alts[0]))
				continue
			}
			var as []string
			for _, a := range s.alts {
				as = append(as, "        "+fieldStr(n, a))
			}
			ss = append(ss, fmt.Sprintf("      .oneof %q [\n%s]", s.oneof, strings.Join(as, ",\n")))
		}
		for _, k := range msgs[n].keys {
			ks = append(ks, strconv.Quote(k))
		}
		fmt.Fprintf(&b, "  -- %d %s\n  { name := %q, slots := [\n%s],\n    jsonKeys := [%s] }%s", i, n, n,
			strings.Join(ss, ",\n"), strings.Join(ks, ", "), sep(i, len(mnames)))
	}
	b.WriteString("]\n\ndef enums : List EnumT := [\n")
	for i, n := range enames {
		var vs []string
		for _, v := range enums[n] {
			vs = append(vs, fmt.Sprintf("(%q, %d)", v.name, v.val))
		}
		fmt.Fprintf(&b, "  -- %d %s\n  { name := %q, values := [%s] }%s", i, n, n, strings.Join(vs, ", "), sep(i, len(enames)))
	}
	var rs []string
	for _, r := range roots {
		k, ok := midx[r[1]]
		check(ok, "root %s: message %s not found", r[0], r[1])
		rs = append(rs, fmt.Sprintf("(%q, %d)", r[0], k))
	}
	fmt.Fprintf(&b, "]\n\ndef roots : List (String × Nat) := [%s]\n\n", strings.Join(rs, ", "))
	// per `case` clause of every hand-written reader: (labels, assigned Go field, reader helpers called)
	b.WriteString("/-- message name ↦ its reader's case clauses: (labels, assigned Go field, reader helpers called — sorted) -/\n")
	b.WriteString("def readers : List (String × List (List String × String × List String)) := [\n")
	for i, n := range mnames {
		var cs []string
		for _, c := range msgs[n].cases {
			q := func(xs []string) string {
				var o []string
				for _, x := range xs {
					o = append(o, strconv.Quote(x))
				}
				return "[" + strings.Join(o, ", ") + "]"
			}
			cs = append(cs, fmt.Sprintf("      (%s, %q, %s)", q(c.labels), c.target, q(c.calls)))
		}
		fmt.Fprintf(&b, "  (%q, [\n%s])%s", n, strings.Join(cs, ",\n"), sep(i, len(mnames)))
	}
	b.WriteString("]\n\n")
	mpb, mjs := loadMigrations(os.Args[1])
	ql := func(xs []string) string {
		var o []string
		for _, x := range xs {
			o = append(o, strconv.Quote(x))
		}
		return "[" + strings.Join(o, ", ") + "]"
	}
	b.WriteString("/-- roots whose public PROTOBUF entry point calls otlp.Migrate* (ProtoUnmarshaler.Unmarshal*, ExportRequest.UnmarshalProto) -/\n")
	fmt.Fprintf(&b, "def migratesPbRoots : List String := %s\n", ql(mpb))
	b.WriteString("/-- roots whose public JSON entry point calls otlp.Migrate* (JSONUnmarshaler.Unmarshal*, ExportRequest.UnmarshalJSON, possibly by delegation) -/\n")
	fmt.Fprintf(&b, "def migratesJsonRoots : List String := %s\n\n", ql(mjs))
	b.WriteString("def schema : Schema := { msgs := msgs, enums := enums, roots := roots }\n\nend OtelVerif.Gen.OtlpSchema\n")
	fmt.Print(b.String())
}
