package main

// pbhelpers.go (C08 round 2): the per-file copies of the gogo varint helpers. Every *.pb.go under pdata/internal/data/protogen has
// its OWN encodeVarint<X>, sov<X>, soz<X>, skip<X> (X = Logs, Metrics, Trace, Common, Resource, Profiles, LogsService, …). The Lean
// model has ONE `varint` / `sov` / `skipLoop` (Model/Wire.lean, Model/C08.lean; `C08_sov_formula`). This check renames the suffix
// away and compares each copy with the modelled shape (pbHelperShape, pbhelpers_tmpl.go): a copy that differs → exit 2.

import (
	"go/ast"
	"go/token"
	"io/fs"
	"path/filepath"
	"sort"
	"strconv"
	"strings"
)

var pbHelperNames = []string{"encodeVarint", "sov", "soz", "skip"}

// normalisedPBHelpers returns helper base name ↦ printed declaration with the file suffix X renamed to "X"; suffix = X.
func normalisedPBHelpers(path string) (map[string]string, string) {
	fset := token.NewFileSet()
	file := parseIn(fset, path)
	suffix := ""
	for _, decl := range file.Decls {
		if fd, ok := decl.(*ast.FuncDecl); ok && fd.Recv == nil && strings.HasPrefix(fd.Name.Name, "encodeVarint") {
			check(suffix == "", "%s: two encodeVarint* functions", path)
			suffix = strings.TrimPrefix(fd.Name.Name, "encodeVarint")
		}
	}
	check(suffix != "", "%s: no encodeVarint<X> function", path)
	out := map[string]string{}
	for _, decl := range file.Decls {
		fd, ok := decl.(*ast.FuncDecl)
		if !ok || fd.Recv != nil || !strings.HasSuffix(fd.Name.Name, suffix) {
			continue
		}
		base := strings.TrimSuffix(fd.Name.Name, suffix)
		known := false
		for _, n := range pbHelperNames {
			known = known || n == base
		}
		if !known {
			continue
		}
		ast.Inspect(fd, func(n ast.Node) bool {
			if id, ok := n.(*ast.Ident); ok && strings.HasSuffix(id.Name, suffix) {
				b := strings.TrimSuffix(id.Name, suffix)
				switch b {
				case "encodeVarint", "sov", "soz", "skip", "ErrInvalidLength", "ErrIntOverflow", "ErrUnexpectedEndOfGroup":
					id.Name = b + "X"
				}
			}
			return true
		})
		out[base] = printDecl(fset, fd)
	}
	return out, suffix
}

// loadPBHelpers checks every *.pb.go and returns the package dirs (pkgdir form: "logs", "collectorlogs", …) that passed.
func loadPBHelpers(repo string) []string {
	root := filepath.Join(repo, "pdata/internal/data/protogen")
	var pkgs []string
	err := filepath.WalkDir(root, func(path string, d fs.DirEntry, err error) error {
		if err != nil || d.IsDir() || !strings.HasSuffix(path, ".pb.go") {
			return err
		}
		got, suffix := normalisedPBHelpers(path)
		for _, n := range pbHelperNames {
			want, ok := pbHelperShape[n]
			check(ok, "internal: no template for %s", n)
			g, ok := got[n]
			if n == "soz" && !ok {
				continue // files without sint fields have no soz<X>… (gogo always emits it today; tolerate absence only for soz)
			}
			check(ok, "%s: helper %s%s not found", path, n, suffix)
			check(g == want, "%s: %s%s no longer has the modelled shape (Model/Wire.lean varint/sov, Model/C08.lean skipLoop):\n%s", path, n, suffix, g)
		}
		rel, _ := filepath.Rel(root, filepath.Dir(path))
		pkgs = append(pkgs, pkgdir(filepath.ToSlash(rel)))
		return nil
	})
	check(err == nil && len(pkgs) > 0, "no *.pb.go under %s (%v)", root, err)
	sort.Strings(pkgs)
	return pkgs
}

func dumpPBHelperTemplate(path string) string {
	got, _ := normalisedPBHelpers(path)
	var b strings.Builder
	b.WriteString("package main\n\n// GENERATED once by `otlpschema <repo> --dump-pbhelpers` from logs/v1/logs.pb.go (suffix renamed to X); the shape the Lean model was written against.\nvar pbHelperShape = map[string]string{\n")
	for _, n := range pbHelperNames {
		b.WriteString("\t" + strconv.Quote(n) + ": " + strconv.Quote(got[n]) + ",\n")
	}
	b.WriteString("}\n")
	return b.String()
}
