// otlptables regenerates lean/OtelVerif/Gen/OtlpTables.lean from the switch statements that decide what a
// failure means on both sides of the OTLP hop:
//
//	receiver/otlpreceiver/internal/errors/errors.go   GetStatusFromError (default / permanent code), GetHTTPStatusCodeFromStatus
//	receiver/otlpreceiver/otlphttp.go                 writeStatusResponse (throttle statuses, Retry-After rounding), handler statuses
//	internal/statusutil/helper.go                     NewStatusFromMsgAndHTTPCode
//	exporter/otlpexporter/otlp.go                     shouldRetry
//	exporter/otlphttpexporter/otlp.go                 isRetryableStatusCode, isThrottleError
//
// Only data is extracted (case constants resolved through the fixed `codes` / `net/http` name tables below).
// Exit 2 = the source no longer has the expected shape.
package main

import (
	"fmt"
	"go/ast"
	"go/parser"
	"go/token"
	"os"
	"path/filepath"
	"sort"
	"strings"
)

var grpcCodes = map[string]int{
	"OK": 0, "Canceled": 1, "Unknown": 2, "InvalidArgument": 3, "DeadlineExceeded": 4, "NotFound": 5, "AlreadyExists": 6,
	"PermissionDenied": 7, "ResourceExhausted": 8, "FailedPrecondition": 9, "Aborted": 10, "OutOfRange": 11,
	"Unimplemented": 12, "Internal": 13, "Unavailable": 14, "DataLoss": 15, "Unauthenticated": 16,
}

var httpStatus = map[string]int{
	"StatusOK": 200, "StatusBadRequest": 400, "StatusUnauthorized": 401, "StatusForbidden": 403, "StatusNotFound": 404,
	"StatusMethodNotAllowed": 405, "StatusRequestEntityTooLarge": 413, "StatusUnsupportedMediaType": 415,
	"StatusTooManyRequests": 429, "StatusInternalServerError": 500, "StatusNotImplemented": 501, "StatusBadGateway": 502,
	"StatusServiceUnavailable": 503, "StatusGatewayTimeout": 504,
}

func die(format string, a ...any) {
	fmt.Fprintf(os.Stderr, "otlptables: "+format+"\n", a...)
	os.Exit(2)
}

func parse(path string) *ast.File {
	f, err := parser.ParseFile(token.NewFileSet(), path, nil, 0)
	if err != nil {
		die("%v", err)
	}
	return f
}

func funcDecl(f *ast.File, name string) *ast.FuncDecl {
	for _, d := range f.Decls {
		if fd, ok := d.(*ast.FuncDecl); ok && fd.Name.Name == name {
			return fd
		}
	}
	die("func %s not found", name)
	return nil
}

// constOf resolves codes.X / http.StatusX
func constOf(e ast.Expr) (int, bool) {
	se, ok := e.(*ast.SelectorExpr)
	if !ok {
		return 0, false
	}
	pkg, ok := se.X.(*ast.Ident)
	if !ok {
		return 0, false
	}
	switch pkg.Name {
	case "codes":
		v, ok := grpcCodes[se.Sel.Name]
		return v, ok
	case "http":
		v, ok := httpStatus[se.Sel.Name]
		return v, ok
	}
	return 0, false
}

func mustConst(e ast.Expr, what string) int {
	v, ok := constOf(e)
	if !ok {
		die("%s: cannot resolve constant", what)
	}
	return v
}

func findSwitch(fd *ast.FuncDecl) *ast.SwitchStmt {
	var sw *ast.SwitchStmt
	n := 0
	ast.Inspect(fd, func(nd ast.Node) bool {
		if s, ok := nd.(*ast.SwitchStmt); ok {
			sw = s
			n++
		}
		return true
	})
	if n != 1 {
		die("%s: expected exactly one switch, found %d", fd.Name.Name, n)
	}
	return sw
}

// valueOfClause: the single statement of a clause is `return <const>` or `<ident> = <const>`
func valueOfClause(cc *ast.CaseClause, fn string) int {
	if len(cc.Body) != 1 {
		die("%s: clause with %d statements", fn, len(cc.Body))
	}
	switch st := cc.Body[0].(type) {
	case *ast.ReturnStmt:
		if len(st.Results) == 1 {
			return mustConst(st.Results[0], fn)
		}
	case *ast.AssignStmt:
		if len(st.Rhs) == 1 {
			return mustConst(st.Rhs[0], fn)
		}
	}
	die("%s: clause body is not `return c` / `x = c`", fn)
	return 0
}

type table struct {
	rows [][2]int
	def  int
}

func mapSwitch(fd *ast.FuncDecl) table {
	sw := findSwitch(fd)
	var t table
	hasDef := false
	seen := map[int]bool{}
	for _, c := range sw.Body.List {
		cc := c.(*ast.CaseClause)
		v := valueOfClause(cc, fd.Name.Name)
		if cc.List == nil {
			t.def, hasDef = v, true
			continue
		}
		for _, e := range cc.List {
			k := mustConst(e, fd.Name.Name)
			if seen[k] {
				die("%s: duplicate case %d", fd.Name.Name, k)
			}
			seen[k] = true
			t.rows = append(t.rows, [2]int{k, v})
		}
	}
	if !hasDef {
		die("%s: no default clause", fd.Name.Name)
	}
	return t
}

func leanPairs(rows [][2]int) string {
	var s []string
	for _, r := range rows {
		s = append(s, fmt.Sprintf("(%d, %d)", r[0], r[1]))
	}
	return "[" + strings.Join(s, ", ") + "]"
}

func leanNats(xs []int) string {
	var s []string
	for _, x := range xs {
		s = append(s, fmt.Sprint(x))
	}
	return "[" + strings.Join(s, ", ") + "]"
}

// eqChain: `x == A || x == B` -> [A, B]
func eqChain(e ast.Expr, what string) []int {
	switch x := e.(type) {
	case *ast.BinaryExpr:
		if x.Op == token.LOR {
			return append(eqChain(x.X, what), eqChain(x.Y, what)...)
		}
		if x.Op == token.EQL {
			return []int{mustConst(x.Y, what)}
		}
	case *ast.ParenExpr:
		return eqChain(x.X, what)
	}
	die("%s: not a chain of == / ||", what)
	return nil
}

func src(fset *token.FileSet, n ast.Node) string { return fmt.Sprint(n) }

func main() {
	repo := os.Args[1]
	ef := parse(filepath.Join(repo, "receiver/otlpreceiver/internal/errors/errors.go"))

	// GetHTTPStatusCodeFromStatus
	httpOf := mapSwitch(funcDecl(ef, "GetHTTPStatusCodeFromStatus"))

	// GetStatusFromError: `code := codes.A` ; `if consumererror.IsPermanent(err) { code = codes.B }`
	gs := funcDecl(ef, "GetStatusFromError")
	defCode, permCode := -1, -1
	ast.Inspect(gs, func(n ast.Node) bool {
		switch x := n.(type) {
		case *ast.AssignStmt:
			if len(x.Lhs) == 1 && len(x.Rhs) == 1 {
				if id, ok := x.Lhs[0].(*ast.Ident); ok && id.Name == "code" {
					v, ok := constOf(x.Rhs[0])
					if !ok {
						die("GetStatusFromError: code assigned a non-constant")
					}
					if x.Tok == token.DEFINE {
						defCode = v
					} else {
						permCode = v
					}
				}
			}
		case *ast.IfStmt:
			if call, ok := x.Cond.(*ast.CallExpr); ok {
				if se, ok := call.Fun.(*ast.SelectorExpr); ok && se.Sel.Name != "IsPermanent" {
					die("GetStatusFromError: unexpected condition %s", se.Sel.Name)
				}
			}
		}
		return true
	})
	if defCode < 0 || permCode < 0 {
		die("GetStatusFromError: default/permanent code not found")
	}
	// the status passthrough: first statement `s, ok := status.FromError(err)`, last `return s.Err()`
	if len(gs.Body.List) != 3 {
		die("GetStatusFromError no longer has 3 statements")
	}

	// statusutil.NewStatusFromMsgAndHTTPCode
	sf := parse(filepath.Join(repo, "internal/statusutil/helper.go"))
	grpcOf := mapSwitch(funcDecl(sf, "NewStatusFromMsgAndHTTPCode"))

	// shouldRetry: clauses `return true` (always) and `return retryInfo != nil` (only with RetryInfo); falls through to `return false`
	xf := parse(filepath.Join(repo, "exporter/otlpexporter/otlp.go"))
	sr := funcDecl(xf, "shouldRetry")
	var always, ifInfo []int
	for _, c := range findSwitch(sr).Body.List {
		cc := c.(*ast.CaseClause)
		if cc.List == nil {
			die("shouldRetry: unexpected default clause")
		}
		if len(cc.Body) != 1 {
			die("shouldRetry: clause with %d statements", len(cc.Body))
		}
		rs, ok := cc.Body[0].(*ast.ReturnStmt)
		if !ok || len(rs.Results) != 1 {
			die("shouldRetry: clause is not a return")
		}
		var dst *[]int
		switch r := rs.Results[0].(type) {
		case *ast.Ident:
			if r.Name != "true" {
				die("shouldRetry: clause returns %s", r.Name)
			}
			dst = &always
		case *ast.BinaryExpr:
			l, ok1 := r.X.(*ast.Ident)
			rr, ok2 := r.Y.(*ast.Ident)
			if r.Op != token.NEQ || !ok1 || !ok2 || l.Name != "retryInfo" || rr.Name != "nil" {
				die("shouldRetry: conditional clause is not `retryInfo != nil`")
			}
			dst = &ifInfo
		default:
			die("shouldRetry: unexpected return expression")
		}
		for _, e := range cc.List {
			*dst = append(*dst, mustConst(e, "shouldRetry"))
		}
	}
	last, ok := sr.Body.List[len(sr.Body.List)-1].(*ast.ReturnStmt)
	if !ok || len(last.Results) != 1 {
		die("shouldRetry: no trailing return")
	}
	if id, ok := last.Results[0].(*ast.Ident); !ok || id.Name != "false" {
		die("shouldRetry: trailing return is not false")
	}
	// processError: `throttleDuration != 0` decides throttle vs plain retry
	pe := funcDecl(xf, "processError")
	sawThrottleTest := false
	ast.Inspect(pe, func(n ast.Node) bool {
		if be, ok := n.(*ast.BinaryExpr); ok && be.Op == token.NEQ {
			if id, ok := be.X.(*ast.Ident); ok && id.Name == "throttleDuration" {
				if bl, ok := be.Y.(*ast.BasicLit); ok && bl.Value == "0" {
					sawThrottleTest = true
				}
			}
		}
		return true
	})
	if !sawThrottleTest {
		die("processError: `throttleDuration != 0` not found")
	}

	// otlphttpexporter: isRetryableStatusCode (cases return true, default false); isThrottleError
	hf := parse(filepath.Join(repo, "exporter/otlphttpexporter/otlp.go"))
	ir := funcDecl(hf, "isRetryableStatusCode")
	var httpRetry []int
	for _, c := range findSwitch(ir).Body.List {
		cc := c.(*ast.CaseClause)
		if len(cc.Body) != 1 {
			die("isRetryableStatusCode: clause with %d statements", len(cc.Body))
		}
		rs, ok := cc.Body[0].(*ast.ReturnStmt)
		if !ok || len(rs.Results) != 1 {
			die("isRetryableStatusCode: clause is not a return")
		}
		id, ok := rs.Results[0].(*ast.Ident)
		if !ok {
			die("isRetryableStatusCode: non-literal return")
		}
		if cc.List == nil {
			if id.Name != "false" {
				die("isRetryableStatusCode: default is not false")
			}
			continue
		}
		if id.Name != "true" {
			die("isRetryableStatusCode: a case returns %s", id.Name)
		}
		for _, e := range cc.List {
			httpRetry = append(httpRetry, mustConst(e, "isRetryableStatusCode"))
		}
	}
	ex := funcDecl(hf, "export")
	var expThrottle []int
	successLo, successHi := -1, -1
	ast.Inspect(ex, func(n ast.Node) bool {
		switch x := n.(type) {
		case *ast.AssignStmt:
			if len(x.Lhs) == 1 && len(x.Rhs) == 1 {
				if id, ok := x.Lhs[0].(*ast.Ident); ok && id.Name == "isThrottleError" {
					expThrottle = eqChain(x.Rhs[0], "isThrottleError")
				}
			}
		case *ast.IfStmt:
			// resp.StatusCode >= 200 && resp.StatusCode <= 299
			if be, ok := x.Cond.(*ast.BinaryExpr); ok && be.Op == token.LAND {
				l, ok1 := be.X.(*ast.BinaryExpr)
				r, ok2 := be.Y.(*ast.BinaryExpr)
				if ok1 && ok2 && l.Op == token.GEQ && r.Op == token.LEQ {
					if a, ok := l.Y.(*ast.BasicLit); ok {
						fmt.Sscan(a.Value, &successLo)
					}
					if b, ok := r.Y.(*ast.BasicLit); ok {
						fmt.Sscan(b.Value, &successHi)
					}
				}
			}
		}
		return true
	})
	if expThrottle == nil || successLo < 0 || successHi < 0 {
		die("otlphttpexporter export(): isThrottleError / success range not found")
	}

	// receiver writeStatusResponse: throttle statuses and the rounding of Retry-After
	rf := parse(filepath.Join(repo, "receiver/otlpreceiver/otlphttp.go"))
	ws := funcDecl(rf, "writeStatusResponse")
	var recvThrottle []int
	roundsUp, sawRetryAfter := false, false
	if first, ok := ws.Body.List[0].(*ast.IfStmt); ok {
		recvThrottle = eqChain(first.Cond, "writeStatusResponse")
	} else {
		die("writeStatusResponse: first statement is not the throttle-status if")
	}
	ast.Inspect(ws, func(n ast.Node) bool {
		call, ok := n.(*ast.CallExpr)
		if !ok {
			return true
		}
		se, ok := call.Fun.(*ast.SelectorExpr)
		if !ok || se.Sel.Name != "Set" || len(call.Args) != 2 {
			return true
		}
		if bl, ok := call.Args[0].(*ast.BasicLit); !ok || bl.Value != `"Retry-After"` {
			return true
		}
		sawRetryAfter = true
		// find the division by time.Second inside the value expression and look at its numerator
		var div *ast.BinaryExpr
		ndiv := 0
		ast.Inspect(call.Args[1], func(n ast.Node) bool {
			if be, ok := n.(*ast.BinaryExpr); ok && be.Op == token.QUO {
				if s, ok := be.Y.(*ast.SelectorExpr); ok && s.Sel.Name == "Second" {
					div = be
					ndiv++
				}
			}
			return true
		})
		if ndiv != 1 {
			die("writeStatusResponse: expected exactly one `/ time.Second` in the Retry-After value")
		}
		num := div.X
		if p, ok := num.(*ast.ParenExpr); ok {
			num = p.X
		}
		switch x := num.(type) {
		case *ast.CallExpr:
			roundsUp = false // d / time.Second : truncation
		case *ast.BinaryExpr:
			// (d + time.Second - 1) / time.Second : ceiling
			text := exprString(x)
			if strings.HasSuffix(text, "+time.Second-1") || strings.HasSuffix(text, "+time.Second-time.Nanosecond") {
				roundsUp = true
			} else {
				die("writeStatusResponse: unrecognised numerator %s", text)
			}
		default:
			die("writeStatusResponse: unrecognised numerator")
		}
		return true
	})
	if !sawRetryAfter {
		die("writeStatusResponse: Retry-After header not set")
	}
	// handler statuses
	unmarshalStatus, exportStatus := -1, -1
	hl := funcDecl(rf, "handleLogs")
	var writeErrs []int
	ast.Inspect(hl, func(n ast.Node) bool {
		if call, ok := n.(*ast.CallExpr); ok {
			if id, ok := call.Fun.(*ast.Ident); ok && id.Name == "writeError" && len(call.Args) == 4 {
				writeErrs = append(writeErrs, mustConst(call.Args[3], "handleLogs"))
			}
		}
		return true
	})
	if len(writeErrs) != 3 {
		die("handleLogs: expected 3 writeError calls, found %d", len(writeErrs))
	}
	unmarshalStatus, exportStatus = writeErrs[0], writeErrs[1]
	// the four handlers must be the same up to the signal name
	norm := func(name, sig string) string {
		s := exprStringNode(funcDecl(rf, name).Body)
		for _, w := range []string{sig, strings.ToLower(sig)} {
			s = strings.ReplaceAll(s, w, "X")
		}
		return s
	}
	ref := norm("handleLogs", "Logs")
	for name, sig := range map[string]string{"handleTraces": "Traces", "handleMetrics": "Metrics", "handleProfiles": "Profiles"} {
		if norm(name, sig) != ref {
			die("%s differs structurally from handleLogs", name)
		}
	}
	methodStatus := mustConstIn(funcDecl(rf, "handleUnmatchedMethod"), "handleUnmatchedMethod")
	ctypeStatus := mustConstIn(funcDecl(rf, "handleUnmatchedContentType"), "handleUnmatchedContentType")
	readBodyStatus := -1
	ast.Inspect(funcDecl(rf, "readAndCloseBody"), func(n ast.Node) bool {
		if call, ok := n.(*ast.CallExpr); ok {
			if id, ok := call.Fun.(*ast.Ident); ok && id.Name == "writeError" && len(call.Args) == 4 {
				v := mustConst(call.Args[3], "readAndCloseBody")
				if readBodyStatus >= 0 && readBodyStatus != v {
					die("readAndCloseBody: two different statuses")
				}
				readBodyStatus = v
			}
		}
		return true
	})
	// errorHandler (called by confighttp for auth / decompressor rejections): does the branch for a request
	// without a usable Content-Type keep the decided status, or answer the fixed 500 fallback?
	eh := funcDecl(rf, "errorHandler")
	lastStmt, ok := eh.Body.List[len(eh.Body.List)-1].(*ast.ExprStmt)
	if !ok {
		die("errorHandler: last statement is not a call")
	}
	lastCall, ok := lastStmt.X.(*ast.CallExpr)
	if !ok {
		die("errorHandler: last statement is not a call")
	}
	errorHandlerKeepsStatus := false
	switch fn := lastCall.Fun.(*ast.Ident); {
	case fn != nil && fn.Name == "writeResponse" && len(lastCall.Args) == 4:
		if v, ok := constOf(lastCall.Args[2]); !ok || v != 500 {
			die("errorHandler: fallback writeResponse with an unexpected status")
		}
	case fn != nil && fn.Name == "writeStatusResponse" && len(lastCall.Args) == 4:
		if id, ok := lastCall.Args[2].(*ast.Ident); !ok || id.Name != "statusCode" {
			die("errorHandler: fallback writeStatusResponse does not pass statusCode")
		}
		errorHandlerKeepsStatus = true
	default:
		die("errorHandler: unrecognised fallback")
	}

	// the exporters' eight push functions are the same code up to the signal's names: every signal goes through
	// processError (gRPC) resp. export(…, its partial-success handler) (HTTP)
	sigWords := map[string][]string{
		"pushTraces":   {"ptraceotlp", "ptrace", "traceExporter", "tracesURL", "tracesPartialSuccessHandler", "NewExportRequestFromTraces", "RejectedSpans", "dropped_spans", "Traces"},
		"pushMetrics":  {"pmetricotlp", "pmetric", "metricExporter", "metricsURL", "metricsPartialSuccessHandler", "NewExportRequestFromMetrics", "RejectedDataPoints", "dropped_data_points", "Metrics"},
		"pushLogs":     {"plogotlp", "plog", "logExporter", "logsURL", "logsPartialSuccessHandler", "NewExportRequestFromLogs", "RejectedLogRecords", "dropped_log_records", "Logs"},
		"pushProfiles": {"pprofileotlp", "pprofile", "profileExporter", "profilesURL", "profilesPartialSuccessHandler", "NewExportRequestFromProfiles", "RejectedProfiles", "dropped_profiles", "Profiles"},
	}
	for _, file := range []*ast.File{xf, hf} {
		ref := ""
		for _, name := range []string{"pushTraces", "pushMetrics", "pushLogs", "pushProfiles"} {
			fd := funcDecl(file, name)
			if len(fd.Type.Params.List) == 2 && len(fd.Type.Params.List[1].Names) == 1 {
				// the payload parameter has a per-signal name (td, md, ld, …): rename it in place (the AST is not reused)
				pn := fd.Type.Params.List[1].Names[0].Name
				ast.Inspect(fd.Body, func(n ast.Node) bool {
					if id, ok := n.(*ast.Ident); ok && id.Name == pn {
						id.Name = "§p"
					}
					return true
				})
			}
			str := exprStringNode(fd.Body)
			for i, w := range sigWords[name] {
				str = strings.ReplaceAll(str, w, fmt.Sprintf("§%d", i))
			}
			if ref == "" {
				ref = str
			} else if str != ref {
				die("%s differs structurally from pushTraces in %s", name, file.Name.Name)
			}
		}
		key := "processError("
		if file == hf {
			key = "export("
		}
		if strings.Count(ref, key) != 1 {
			die("push functions of %s do not call %s exactly once", file.Name.Name, key)
		}
	}

	// stages in front of the receiver's handlers (confighttp / configgrpc): statuses and wrapping order
	chf := parse(filepath.Join(repo, "config/confighttp/confighttp.go"))
	authStatuses := map[int]bool{}
	ast.Inspect(funcDecl(chf, "authInterceptor"), func(n ast.Node) bool {
		if se, ok := n.(*ast.SelectorExpr); ok {
			if v, ok := constOf(se); ok {
				authStatuses[v] = true
			}
		}
		return true
	})
	if len(authStatuses) != 1 {
		die("confighttp authInterceptor: expected exactly one status constant, found %v", authStatuses)
	}
	authStatusHTTP := 0
	for v := range authStatuses {
		authStatusHTTP = v
	}
	ccf := parse(filepath.Join(repo, "config/confighttp/compression.go"))
	var serveHTTP *ast.FuncDecl
	for _, d := range ccf.Decls {
		if fd, ok := d.(*ast.FuncDecl); ok && fd.Name.Name == "ServeHTTP" && fd.Recv != nil {
			serveHTTP = fd
		}
	}
	if serveHTTP == nil {
		die("confighttp decompressor.ServeHTTP not found")
	}
	encodingStatus := -1
	ast.Inspect(serveHTTP, func(n ast.Node) bool {
		if call, ok := n.(*ast.CallExpr); ok {
			if se, ok := call.Fun.(*ast.SelectorExpr); ok && se.Sel.Name == "errHandler" && len(call.Args) == 4 {
				encodingStatus = mustConst(call.Args[3], "decompressor.ServeHTTP")
			}
		}
		return true
	})
	if encodingStatus < 0 {
		die("confighttp decompressor.ServeHTTP: errHandler status not found")
	}
	// ToServer: `handler = X(handler, …)` — a later wrap runs EARLIER; expected: decompressor, then max-body, then auth (outermost)
	posOf := map[string]int{}
	var toServer *ast.FuncDecl
	for _, d := range chf.Decls {
		if fd, ok := d.(*ast.FuncDecl); ok && fd.Name.Name == "ToServer" {
			toServer = fd
		}
	}
	if toServer == nil {
		die("confighttp ToServer not found")
	}
	for i, st := range toServer.Body.List {
		ast.Inspect(st, func(n ast.Node) bool {
			if call, ok := n.(*ast.CallExpr); ok {
				if id, ok := call.Fun.(*ast.Ident); ok {
					switch id.Name {
					case "httpContentDecompressor", "maxRequestBodySizeInterceptor", "authInterceptor":
						if _, dup := posOf[id.Name]; dup {
							die("ToServer: %s applied twice", id.Name)
						}
						posOf[id.Name] = i
					}
				}
			}
			return true
		})
	}
	if len(posOf) != 3 {
		die("ToServer: expected httpContentDecompressor, maxRequestBodySizeInterceptor and authInterceptor, found %v", posOf)
	}
	authOutermost := posOf["authInterceptor"] > posOf["maxRequestBodySizeInterceptor"] && posOf["maxRequestBodySizeInterceptor"] > posOf["httpContentDecompressor"]
	// the receiver hands confighttp its own errorHandler (so rejections are OTLP Status bodies)
	usesErrHandler := false
	ast.Inspect(parse(filepath.Join(repo, "receiver/otlpreceiver/otlp.go")), func(n ast.Node) bool {
		if call, ok := n.(*ast.CallExpr); ok {
			if se, ok := call.Fun.(*ast.SelectorExpr); ok && se.Sel.Name == "WithErrorHandler" && len(call.Args) == 1 {
				if id, ok := call.Args[0].(*ast.Ident); ok && id.Name == "errorHandler" {
					usesErrHandler = true
				}
			}
		}
		return true
	})
	if !usesErrHandler {
		die("otlpreceiver: ToServer is not given confighttp.WithErrorHandler(errorHandler)")
	}
	cgf := parse(filepath.Join(repo, "config/configgrpc/configgrpc.go"))
	authCodes := map[int]bool{}
	for _, fn := range []string{"authUnaryServerInterceptor", "authStreamServerInterceptor"} {
		ast.Inspect(funcDecl(cgf, fn), func(n ast.Node) bool {
			if se, ok := n.(*ast.SelectorExpr); ok {
				if id, ok := se.X.(*ast.Ident); ok && id.Name == "codes" {
					if v, ok := constOf(se); ok {
						authCodes[v] = true
					}
				}
			}
			return true
		})
	}
	if len(authCodes) != 1 {
		die("configgrpc auth interceptors: expected exactly one gRPC code, found %v", authCodes)
	}
	authCodeGrpc := 0
	for v := range authCodes {
		authCodeGrpc = v
	}

	// the four signal receivers: `if num == 0 { return New…Response(), nil }` precedes the consumer call
	for _, sig := range []string{"logs", "metrics", "trace", "profiles"} {
		f := parse(filepath.Join(repo, "receiver/otlpreceiver/internal", sig, "otlp.go"))
		exp := funcDecl(f, "Export")
		posZero, posConsume := -1, -1
		for i, st := range exp.Body.List {
			if is, ok := st.(*ast.IfStmt); ok {
				if be, ok := is.Cond.(*ast.BinaryExpr); ok && be.Op == token.EQL {
					if bl, ok := be.Y.(*ast.BasicLit); ok && bl.Value == "0" && posZero < 0 {
						posZero = i
					}
				}
			}
			hit := false
			ast.Inspect(st, func(n ast.Node) bool {
				if se, ok := n.(*ast.SelectorExpr); ok && strings.HasPrefix(se.Sel.Name, "Consume") {
					hit = true
				}
				return true
			})
			if hit && posConsume < 0 {
				posConsume = i
			}
		}
		if posZero < 0 || posConsume < 0 || posZero > posConsume {
			die("internal/%s Export: zero-items early return does not precede the consumer call", sig)
		}
		usesStatus := false
		ast.Inspect(exp, func(n ast.Node) bool {
			if se, ok := n.(*ast.SelectorExpr); ok && se.Sel.Name == "GetStatusFromError" {
				usesStatus = true
			}
			return true
		})
		if !usesStatus {
			die("internal/%s Export: does not map the error with GetStatusFromError", sig)
		}
	}

	sort.Ints(always)
	var b strings.Builder
	b.WriteString("/- GENERATED by /verif/translators/cmd/otlptables from the Go sources — do not edit. -/\n")
	b.WriteString("namespace OtelVerif.Gen.OtlpTables\n\n")
	b.WriteString("/-- `GetStatusFromError`: code for an error without gRPC status / for a permanent one -/\n")
	fmt.Fprintf(&b, "def plainCode : Nat := %d\ndef permanentCode : Nat := %d\n\n", defCode, permCode)
	b.WriteString("/-- `GetHTTPStatusCodeFromStatus` switch: gRPC code ↦ HTTP status, and the default branch -/\n")
	fmt.Fprintf(&b, "def httpOfGrpc : List (Nat × Nat) := %s\ndef httpOfGrpcDefault : Nat := %d\n\n", leanPairs(httpOf.rows), httpOf.def)
	b.WriteString("/-- `statusutil.NewStatusFromMsgAndHTTPCode` switch: HTTP status ↦ gRPC code, and the default branch -/\n")
	fmt.Fprintf(&b, "def grpcOfHttp : List (Nat × Nat) := %s\ndef grpcOfHttpDefault : Nat := %d\n\n", leanPairs(grpcOf.rows), grpcOf.def)
	b.WriteString("/-- otlpexporter `shouldRetry`: codes always retried / retried only when RetryInfo is present -/\n")
	fmt.Fprintf(&b, "def grpcRetryAlways : List Nat := %s\ndef grpcRetryIfInfo : List Nat := %s\n\n", leanNats(always), leanNats(ifInfo))
	b.WriteString("/-- otlphttpexporter `isRetryableStatusCode`, `isThrottleError`, success range -/\n")
	fmt.Fprintf(&b, "def httpRetryable : List Nat := %s\ndef expThrottleStatuses : List Nat := %s\ndef successLo : Nat := %d\ndef successHi : Nat := %d\n\n",
		leanNats(httpRetry), leanNats(expThrottle), successLo, successHi)
	b.WriteString("/-- receiver `writeStatusResponse`: statuses that carry Retry-After; is the delay rounded UP to whole seconds? -/\n")
	fmt.Fprintf(&b, "def recvThrottleStatuses : List Nat := %s\ndef retryAfterRoundsUp : Bool := %v\n\n", leanNats(recvThrottle), roundsUp)
	b.WriteString("/-- receiver HTTP handler statuses: wrong method, unsupported content type, unreadable body, undecodable body, fallback for an export error without status -/\n")
	fmt.Fprintf(&b, "def methodStatus : Nat := %d\ndef contentTypeStatus : Nat := %d\ndef readBodyStatus : Nat := %d\ndef unmarshalStatus : Nat := %d\ndef exportFallbackStatus : Nat := %d\n\n",
		methodStatus, ctypeStatus, readBodyStatus, unmarshalStatus, exportStatus)
	b.WriteString("/-- `errorHandler` (auth / decompressor rejections): a request without a usable Content-Type still gets the decided status (else a fixed 500) -/\n")
	fmt.Fprintf(&b, "def errorHandlerKeepsStatus : Bool := %v\n\n", errorHandlerKeepsStatus)
	b.WriteString("/-- stages in front of the handlers: confighttp `authInterceptor` status, decompressor rejection status, configgrpc auth interceptors' code;\n`ToServer` wraps decompressor, then max-body, then auth (auth runs first) -/\n")
	fmt.Fprintf(&b, "def authStatusHttp : Nat := %d\ndef encodingStatus : Nat := %d\ndef authCodeGrpc : Nat := %d\ndef authOutermost : Bool := %v\n\n", authStatusHTTP, encodingStatus, authCodeGrpc, authOutermost)
	b.WriteString("end OtelVerif.Gen.OtlpTables\n")
	fmt.Print(b.String())
}

func mustConstIn(fd *ast.FuncDecl, what string) int {
	v, found := 0, false
	ast.Inspect(fd, func(n ast.Node) bool {
		if se, ok := n.(*ast.SelectorExpr); ok {
			if c, ok := constOf(se); ok {
				if found && c != v {
					die("%s: more than one status constant", what)
				}
				v, found = c, true
			}
		}
		return true
	})
	if !found {
		die("%s: no status constant", what)
	}
	return v
}

func exprString(e ast.Expr) string { return exprStringNode(e) }

// exprStringNode prints a node compactly (identifiers, selectors, operators, literals) for structural comparison.
func exprStringNode(n ast.Node) string {
	var b strings.Builder
	ast.Inspect(n, func(n ast.Node) bool {
		switch x := n.(type) {
		case *ast.Ident:
			b.WriteString(x.Name)
		case *ast.BasicLit:
			b.WriteString(x.Value)
		case *ast.BinaryExpr:
			// in-order printing: handled manually
			b.WriteString(exprStringNode(x.X))
			b.WriteString(x.Op.String())
			b.WriteString(exprStringNode(x.Y))
			return false
		case *ast.SelectorExpr:
			b.WriteString(exprStringNode(x.X))
			b.WriteString(".")
			b.WriteString(x.Sel.Name)
			return false
		case *ast.CallExpr:
			b.WriteString(exprStringNode(x.Fun))
			b.WriteString("(")
			for i, a := range x.Args {
				if i > 0 {
					b.WriteString(",")
				}
				b.WriteString(exprStringNode(a))
			}
			b.WriteString(")")
			return false
		case *ast.ParenExpr:
			b.WriteString("(")
			b.WriteString(exprStringNode(x.X))
			b.WriteString(")")
			return false
		case *ast.IfStmt:
			b.WriteString("if;")
		case *ast.ReturnStmt:
			b.WriteString("return;")
		case *ast.AssignStmt:
			b.WriteString("assign;")
		}
		return true
	})
	return b.String()
}
