// pdatacensus regenerates lean/OtelVerif/Gen/PdataCensus.lean: a census of every exported method with a
// value receiver in the pdata data-model packages, classified by what its body does:
//
//	reader      no write through orig, name not in the mutator pattern
//	guarded     mutator whose FIRST statement is `<x>.AssertMutable()`
//	delegating  mutator by name only: writes nothing itself and does not assert (must call guarded mutators)
//	unguarded   writes through orig (assignment / copy() with an `orig` target) but does not assert first
//
// Only data is extracted (names + the class). Exit 2 if the packages no longer have the expected shape.
package main

import (
	"bytes"
	"fmt"
	"go/ast"
	"go/parser"
	"go/printer"
	"go/token"
	"os"
	"path/filepath"
	"regexp"
	"sort"
	"strings"
)

func die(format string, a ...any) {
	fmt.Fprintf(os.Stderr, "pdatacensus: "+format+"\n", a...)
	os.Exit(2)
}

var mutName = regexp.MustCompile(`^(Set|Put|Remove|Append|MoveTo$|MoveAndAppendTo$|CopyTo$|EnsureCapacity$|Sort$|Clear$|FromRaw$)`)

func src(fset *token.FileSet, n ast.Node) string {
	var b bytes.Buffer
	_ = printer.Fprint(&b, fset, n)
	return b.String()
}

func writesOrig(fset *token.FileSet, body *ast.BlockStmt) bool {
	found := false
	ast.Inspect(body, func(n ast.Node) bool {
		switch s := n.(type) {
		case *ast.AssignStmt:
			if s.Tok == token.DEFINE {
				return true
			}
			for _, l := range s.Lhs {
				if strings.Contains(strings.ToLower(src(fset, l)), "orig") {
					found = true
				}
			}
		case *ast.IncDecStmt:
			if strings.Contains(strings.ToLower(src(fset, s.X)), "orig") {
				found = true
			}
		case *ast.CallExpr:
			if id, ok := s.Fun.(*ast.Ident); ok && id.Name == "copy" && len(s.Args) > 0 &&
				strings.Contains(strings.ToLower(src(fset, s.Args[0])), "orig") {
				found = true
			}
		}
		return true
	})
	return found
}

var wrongAssert, readerAsserts, badChild []string
var nChildCtors int

func firstAsserts(body *ast.BlockStmt) bool {
	if len(body.List) == 0 {
		return false
	}
	es, ok := body.List[0].(*ast.ExprStmt)
	if !ok {
		return false
	}
	call, ok := es.X.(*ast.CallExpr)
	if !ok {
		return false
	}
	sel, ok := call.Fun.(*ast.SelectorExpr)
	return ok && sel.Sel.Name == "AssertMutable"
}

type entry struct{ pkg, typ, method, class string }

// assertedOn: the receiver expression of statement i if it is `<x>.state.AssertMutable()` / `<x>.getState().AssertMutable()`
func assertedOn(fset *token.FileSet, body *ast.BlockStmt, i int) string {
	if len(body.List) <= i {
		return ""
	}
	es, ok := body.List[i].(*ast.ExprStmt)
	if !ok {
		return ""
	}
	call, ok := es.X.(*ast.CallExpr)
	if !ok {
		return ""
	}
	sel, ok := call.Fun.(*ast.SelectorExpr)
	if !ok || sel.Sel.Name != "AssertMutable" {
		return ""
	}
	t := strings.Join(strings.Fields(src(fset, sel.X)), "")
	for _, suf := range []string{".state", ".getState()"} {
		if strings.HasSuffix(t, suf) {
			return strings.TrimSuffix(t, suf)
		}
	}
	return "?" + t
}

// rightAssert: does a guarded mutator assert the state(s) it must?  CopyTo: the destination's; MoveTo / MoveAndAppendTo:
// the receiver's, then the destination's; everything else: the receiver's.
func rightAssert(fset *token.FileSet, fd *ast.FuncDecl) bool {
	recv := ""
	if len(fd.Recv.List[0].Names) == 1 {
		recv = fd.Recv.List[0].Names[0].Name
	}
	param := ""
	if fd.Type.Params != nil && len(fd.Type.Params.List) == 1 && len(fd.Type.Params.List[0].Names) == 1 {
		param = fd.Type.Params.List[0].Names[0].Name
	}
	switch fd.Name.Name {
	case "CopyTo":
		return param != "" && assertedOn(fset, fd.Body, 0) == param
	case "MoveTo", "MoveAndAppendTo":
		return param != "" && assertedOn(fset, fd.Body, 0) == recv && assertedOn(fset, fd.Body, 1) == param
	}
	return assertedOn(fset, fd.Body, 0) == recv
}

func containsAssert(body *ast.BlockStmt) bool {
	found := false
	ast.Inspect(body, func(n ast.Node) bool {
		if sel, ok := n.(*ast.SelectorExpr); ok && sel.Sel.Name == "AssertMutable" {
			found = true
		}
		return true
	})
	return found
}

var childCtor = regexp.MustCompile(`^(new[A-Z]\w*|internal\.New\w+)$`)

// badChildStates: calls building a child wrapper (`new<Wrapper>(orig, state)` / `internal.New<X>(orig, state)`) whose state
// argument is not the receiver's own state.  In CopyTo the pattern `<ctor>(…).CopyTo(<ctor>(…))` must give the SOURCE-side
// wrapper the receiver's state and the DESTINATION-side wrapper the destination's state.
func badChildStates(fset *token.FileSet, fd *ast.FuncDecl, wrapper map[string]bool) []string {
	recv := ""
	if len(fd.Recv.List[0].Names) == 1 {
		recv = fd.Recv.List[0].Names[0].Name
	}
	isCtor := func(e ast.Expr) (*ast.CallExpr, bool) {
		call, ok := e.(*ast.CallExpr)
		if !ok || len(call.Args) < 2 {
			return nil, false
		}
		f := strings.Join(strings.Fields(src(fset, call.Fun)), "")
		if strings.HasPrefix(f, "internal.New") {
			return call, true
		}
		if strings.HasPrefix(f, "new") && len(f) > 3 && wrapper[f[3:]] {
			return call, true
		}
		return nil, false
	}
	okState := func(call *ast.CallExpr, owner string) bool {
		st := strings.Join(strings.Fields(src(fset, call.Args[len(call.Args)-1])), "")
		return st == owner+".state" || st == owner+".getState()" ||
			regexp.MustCompile(`^internal\.Get\w+State\(internal\.\w+\(`+regexp.QuoteMeta(owner)+`\)\)$`).MatchString(st)
	}
	var bad []string
	handled := map[*ast.CallExpr]bool{}
	if fd.Name.Name == "CopyTo" {
		ast.Inspect(fd.Body, func(n ast.Node) bool {
			call, ok := n.(*ast.CallExpr)
			if !ok || len(call.Args) != 1 {
				return true
			}
			sel, ok := call.Fun.(*ast.SelectorExpr)
			if !ok || sel.Sel.Name != "CopyTo" {
				return true
			}
			a, ok1 := isCtor(sel.X)
			b, ok2 := isCtor(call.Args[0])
			if ok1 && ok2 {
				handled[a], handled[b] = true, true
				if !okState(a, recv) || !okState(b, "dest") {
					bad = append(bad, strings.Join(strings.Fields(src(fset, call)), " "))
				}
			}
			return true
		})
	}
	ast.Inspect(fd.Body, func(n ast.Node) bool {
		if e, ok := n.(ast.Expr); ok {
			if call, ok := isCtor(e); ok && !handled[call] {
				nChildCtors++
				if !okState(call, recv) {
					bad = append(bad, strings.Join(strings.Fields(src(fset, call)), " "))
				}
			}
		}
		return true
	})
	nChildCtors += len(handled)
	return bad
}

func main() {
	if len(os.Args) < 2 {
		die("usage: pdatacensus <repo>")
	}
	root := filepath.Join(os.Args[1], "pdata")
	pkgs := []string{"pcommon", "plog", "pmetric", "ptrace", "pprofile"}
	var all []entry
	for _, p := range pkgs {
		fset := token.NewFileSet()
		files, err := filepath.Glob(filepath.Join(root, p, "*.go"))
		if err != nil || len(files) == 0 {
			die("no go files in %s", p)
		}
		n := 0
		var parsed []*ast.File
		// pointer-reaching wrapper types: structs with a `state` field, or defined as internal.X
		wrapper := map[string]bool{}
		for _, f := range files {
			if strings.HasSuffix(f, "_test.go") {
				continue
			}
			af, err := parser.ParseFile(fset, f, nil, 0)
			if err != nil {
				die("parse %s: %v", f, err)
			}
			parsed = append(parsed, af)
			for _, d := range af.Decls {
				gd, ok := d.(*ast.GenDecl)
				if !ok || gd.Tok != token.TYPE {
					continue
				}
				for _, sp := range gd.Specs {
					ts := sp.(*ast.TypeSpec)
					switch t := ts.Type.(type) {
					case *ast.StructType:
						for _, fl := range t.Fields.List {
							for _, nm := range fl.Names {
								if nm.Name == "state" {
									wrapper[ts.Name.Name] = true
								}
							}
						}
					case *ast.SelectorExpr:
						if x, ok := t.X.(*ast.Ident); ok && x.Name == "internal" {
							wrapper[ts.Name.Name] = true
						}
					}
				}
			}
		}
		for _, af := range parsed {
			for _, d := range af.Decls {
				fd, ok := d.(*ast.FuncDecl)
				if !ok || fd.Recv == nil || fd.Body == nil || !fd.Name.IsExported() || len(fd.Recv.List) != 1 {
					continue
				}
				id, ok := fd.Recv.List[0].Type.(*ast.Ident) // value receivers only: the pdata wrappers
				if !ok || !id.IsExported() || !wrapper[id.Name] {
					continue
				}
				if fd.Name.Name == "MarkReadOnly" {
					continue // the one function that sets the state itself
				}
				w := writesOrig(fset, fd.Body)
				class := "reader"
				switch {
				case (w || mutName.MatchString(fd.Name.Name)) && firstAsserts(fd.Body):
					class = "guarded"
				case w:
					class = "unguarded"
				case mutName.MatchString(fd.Name.Name):
					class = "delegating"
				}
				all = append(all, entry{p, id.Name, fd.Name.Name, class})
				if class == "guarded" && !rightAssert(fset, fd) {
					wrongAssert = append(wrongAssert, fmt.Sprintf("(%q, %q, %q)", p, id.Name, fd.Name.Name))
				}
				if class == "reader" && containsAssert(fd.Body) {
					readerAsserts = append(readerAsserts, fmt.Sprintf("(%q, %q, %q)", p, id.Name, fd.Name.Name))
				}
				for _, b := range badChildStates(fset, fd, wrapper) {
					badChild = append(badChild, fmt.Sprintf("(%q, %q, %q)", p, id.Name+"."+fd.Name.Name, b))
					_ = b
				}
				n++
			}
		}
		if n < 10 {
			die("package %s: only %d exported value-receiver methods found", p, n)
		}
	}
	sort.Slice(all, func(i, j int) bool {
		a, b := all[i], all[j]
		return a.pkg+"."+a.typ+"."+a.method < b.pkg+"."+b.typ+"."+b.method
	})
	count := map[string]int{}
	for _, e := range all {
		count[e.class]++
	}
	if count["guarded"] < 300 {
		die("only %d guarded mutators found: AssertMutable pattern changed?", count["guarded"])
	}
	fmt.Println("/-! REGENERATED by translators/cmd/pdatacensus from pdata/{pcommon,plog,pmetric,ptrace,pprofile}[/…otlp]/*.go — do not edit.")
	fmt.Println("Census of exported value-receiver methods: which mutators assert mutability first. -/")
	fmt.Println("namespace OtelVerif.Gen.PdataCensus")
	fmt.Println()
	fmt.Printf("def nReaders : Nat := %d\n", count["reader"])
	fmt.Printf("def nGuarded : Nat := %d\n", count["guarded"])
	list := func(name, class string) {
		fmt.Printf("\n/-- (package, type, method) -/\ndef %s : List (String × String × String) := [", name)
		first := true
		for _, e := range all {
			if e.class != class {
				continue
			}
			if !first {
				fmt.Print(",")
			}
			first = false
			fmt.Printf("\n  (%q, %q, %q)", e.pkg, e.typ, e.method)
		}
		fmt.Println("]")
	}
	fmt.Printf("\n/-- guarded mutators that do not assert the state they must (CopyTo: destination; MoveTo/MoveAndAppendTo: receiver then destination; else receiver) -/\ndef wrongAssert : List (String × String × String) := [%s]\n", strings.Join(wrongAssert, ", "))
	fmt.Printf("\n/-- readers that assert mutability somewhere -/\ndef readerAsserts : List (String × String × String) := [%s]\n", strings.Join(readerAsserts, ", "))
	fmt.Printf("\n/-- child wrappers built with a state that is not the parent's: (package, Type.Method, call) -/\ndef badChildState : List (String × String × String) := [%s]\n", strings.Join(badChild, ", "))
	fmt.Printf("\n/-- child-wrapper constructions inspected -/\ndef nChildCtors : Nat := %d\n", nChildCtors)
	list("unguarded", "unguarded")
	list("delegating", "delegating")
	fmt.Println("\nend OtelVerif.Gen.PdataCensus")
}
