// pdatamsg regenerates lean/OtelVerif/Gen/PdataMsg.lean: the field schema of every generated pdata
// message struct AS ITS CopyTo TREATS IT, read from the generated code (go/ast), plus the optional /
// one-of field tables of the generator.
//
// For every `func (ms S) CopyTo(dest S)` of a message struct (not a slice) each statement must be one of
//
//	dest.SetX(ms.X())                                              prim X
//	ms.X().CopyTo(dest.X())                                        nested X  (delegates to that type's CopyTo)
//	if ms.HasX() { dest.SetX(ms.X()) } [else { dest.RemoveX() }]   optional X, clears = the else branch exists
//	switch ms.TType() { case …: dest.SetA(ms.A()) | ms.A().CopyTo(dest.SetEmptyA()) … [default: dest.orig.F = nil] }
//	                                                               oneof with its alternatives, clears = default resets it
//
// anything else is "the source no longer has the expected shape" (exit 2).  `uncovered` lists setters /
// wrapper getters of S that CopyTo does not mention; `moveOk` says MoveTo is `*dest = *ms; *ms = T{}`.
package main

import (
	"bytes"
	"fmt"
	"go/ast"
	"go/parser"
	"go/printer"
	"go/token"
	"os"
	"path/filepath"
	"regexp"
	"sort"
	"strings"
)

func die(format string, a ...any) {
	fmt.Fprintf(os.Stderr, "pdatamsg: "+format+"\n", a...)
	os.Exit(2)
}

var fset = token.NewFileSet()

func src(n ast.Node) string {
	var b bytes.Buffer
	_ = printer.Fprint(&b, fset, n)
	return strings.Join(strings.Fields(b.String()), " ")
}

type field struct {
	name, kind string
	alts       int
	clears     bool
}

type msg struct {
	pkg, name string
	fields    []field
	uncovered []string
	moveOk    bool
}

var (
	rePrim   = regexp.MustCompile(`^dest\.Set(\w+)\(ms\.(\w+)\(\)\)$`)
	reNested = regexp.MustCompile(`^ms\.(\w+)\(\)\.CopyTo\(dest\.(\w+)\(\)\)$`)
	reAltMsg = regexp.MustCompile(`^ms\.(\w+)\(\)\.CopyTo\(dest\.SetEmpty(\w+)\(\)\)$`)
	reHas    = regexp.MustCompile(`^ms\.Has(\w+)\(\)$`)
	reRemove = regexp.MustCompile(`^dest\.Remove(\w+)\(\)$`)
	reSwitch = regexp.MustCompile(`^ms\.(\w*)Type\(\)$`)
	reReset  = regexp.MustCompile(`^dest\.(orig|getOrig\(\))\.(\w+) = nil$`)
)

func classify(s ast.Stmt, mentioned map[string]bool) (field, bool) {
	switch st := s.(type) {
	case *ast.ExprStmt:
		t := src(st.X)
		if m := rePrim.FindStringSubmatch(t); m != nil && m[1] == m[2] {
			mentioned[m[1]] = true
			return field{name: m[1], kind: "prim", clears: true}, true
		}
		if m := reNested.FindStringSubmatch(t); m != nil && m[1] == m[2] {
			mentioned[m[1]] = true
			return field{name: m[1], kind: "nested", clears: true}, true
		}
	case *ast.IfStmt:
		m := reHas.FindStringSubmatch(src(st.Cond))
		if m == nil || st.Init != nil || len(st.Body.List) != 1 {
			return field{}, false
		}
		b, ok := st.Body.List[0].(*ast.ExprStmt)
		if !ok {
			return field{}, false
		}
		if p := rePrim.FindStringSubmatch(src(b.X)); p == nil || p[1] != m[1] || p[2] != m[1] {
			return field{}, false
		}
		f := field{name: m[1], kind: "optional"}
		mentioned[m[1]] = true
		if st.Else != nil {
			eb, ok := st.Else.(*ast.BlockStmt)
			if !ok || len(eb.List) != 1 {
				return field{}, false
			}
			es, ok := eb.List[0].(*ast.ExprStmt)
			if !ok {
				return field{}, false
			}
			if r := reRemove.FindStringSubmatch(src(es.X)); r == nil || r[1] != m[1] {
				return field{}, false
			}
			f.clears = true
		}
		return f, true
	case *ast.SwitchStmt:
		m := reSwitch.FindStringSubmatch(src(st.Tag))
		if m == nil || st.Init != nil {
			return field{}, false
		}
		f := field{name: m[1] + "Type", kind: "oneof"}
		for _, c := range st.Body.List {
			cc := c.(*ast.CaseClause)
			if len(cc.Body) != 1 {
				return field{}, false
			}
			if cc.List == nil { // default
				as, ok := cc.Body[0].(*ast.AssignStmt)
				if !ok || reReset.FindStringSubmatch(src(as)) == nil {
					return field{}, false
				}
				f.clears = true
				continue
			}
			es, ok := cc.Body[0].(*ast.ExprStmt)
			if !ok {
				return field{}, false
			}
			t := src(es.X)
			if p := rePrim.FindStringSubmatch(t); p != nil && p[1] == p[2] {
				mentioned[p[1]] = true
			} else if a := reAltMsg.FindStringSubmatch(t); a != nil && a[1] == a[2] {
				mentioned[a[1]] = true
			} else {
				return field{}, false
			}
			f.alts++
		}
		return f, true
	}
	return field{}, false
}

func hasState(body *ast.BlockStmt) bool {
	found := false
	ast.Inspect(body, func(n ast.Node) bool {
		if sel, ok := n.(*ast.SelectorExpr); ok && (sel.Sel.Name == "state" || sel.Sel.Name == "getState") {
			found = true
		}
		return true
	})
	return found
}

func main() {
	if len(os.Args) < 2 {
		die("usage: pdatamsg <repo>")
	}
	root := filepath.Join(os.Args[1], "pdata")
	var msgs []msg
	for _, p := range []string{"pcommon", "plog", "pmetric", "ptrace", "pprofile"} {
		files, _ := filepath.Glob(filepath.Join(root, p, "generated_*.go"))
		if len(files) == 0 {
			die("no generated files in %s", p)
		}
		type meths struct {
			copyTo, moveTo *ast.FuncDecl
			setters        []string
			wrappers       []string
		}
		byType := map[string]*meths{}
		for _, f := range files {
			if strings.HasSuffix(f, "_test.go") {
				continue
			}
			af, err := parser.ParseFile(fset, f, nil, 0)
			if err != nil {
				die("parse %s: %v", f, err)
			}
			for _, d := range af.Decls {
				fd, ok := d.(*ast.FuncDecl)
				if !ok || fd.Recv == nil || fd.Body == nil || len(fd.Recv.List) != 1 {
					continue
				}
				id, ok := fd.Recv.List[0].Type.(*ast.Ident)
				if !ok {
					continue
				}
				m := byType[id.Name]
				if m == nil {
					m = &meths{}
					byType[id.Name] = m
				}
				n := fd.Name.Name
				np := 0
				if fd.Type.Params != nil {
					np = len(fd.Type.Params.List)
				}
				switch {
				case n == "CopyTo":
					m.copyTo = fd
				case n == "MoveTo":
					m.moveTo = fd
				case strings.HasPrefix(n, "Set") && !strings.HasPrefix(n, "SetEmpty") && np == 1:
					m.setters = append(m.setters, strings.TrimPrefix(n, "Set"))
				case fd.Name.IsExported() && np == 0 && fd.Type.Results != nil && len(fd.Type.Results.List) == 1 && hasState(fd.Body) &&
					n != "Len" && !strings.HasPrefix(n, "All") && !strings.HasPrefix(n, "SetEmpty"):
					m.wrappers = append(m.wrappers, n)
				}
			}
		}
		var names []string
		for n := range byType {
			names = append(names, n)
		}
		sort.Strings(names)
		for _, n := range names {
			m := byType[n]
			if m.copyTo == nil || strings.Contains(src(m.copyTo.Body), "srcLen") || strings.Contains(src(m.copyTo.Body), "copy"+n) {
				continue // slices (own models)
			}
			body := m.copyTo.Body.List
			if len(body) == 0 || !strings.HasSuffix(src(body[0]), "AssertMutable()") {
				die("%s.%s.CopyTo does not start with AssertMutable", p, n)
			}
			mm := msg{pkg: p, name: n}
			mentioned := map[string]bool{}
			for _, s := range body[1:] {
				f, ok := classify(s, mentioned)
				if !ok {
					die("%s.%s.CopyTo: statement of unknown shape: %s", p, n, src(s))
				}
				mm.fields = append(mm.fields, f)
			}
			for _, s := range append(m.setters, m.wrappers...) {
				if !mentioned[s] {
					mm.uncovered = append(mm.uncovered, s)
				}
			}
			sort.Strings(mm.uncovered)
			if m.moveTo != nil {
				b := m.moveTo.Body.List
				mm.moveOk = len(b) == 4 && strings.HasSuffix(src(b[0]), "AssertMutable()") && strings.HasSuffix(src(b[1]), "AssertMutable()") &&
					regexp.MustCompile(`^\*dest\.(orig|getOrig\(\)) = \*ms\.(orig|getOrig\(\))$`).MatchString(src(b[2])) &&
					regexp.MustCompile(`^\*ms\.(orig|getOrig\(\)) = \w+\.\w+\{\}$`).MatchString(src(b[3]))
			}
			msgs = append(msgs, mm)
		}
	}
	if len(msgs) < 30 {
		die("only %d message structs found", len(msgs))
	}
	// the generator's own tables: how many optional / one-of field descriptions exist
	nOpt, nOne := 0, 0
	gfiles, _ := filepath.Glob(filepath.Join(root, "internal/cmd/pdatagen/internal/*_package.go"))
	for _, f := range gfiles {
		af, err := parser.ParseFile(fset, f, nil, 0)
		if err != nil {
			die("parse %s: %v", f, err)
		}
		ast.Inspect(af, func(n ast.Node) bool {
			if cl, ok := n.(*ast.CompositeLit); ok {
				if id, ok := cl.Type.(*ast.Ident); ok {
					switch id.Name {
					case "optionalPrimitiveValue":
						nOpt++
					case "oneOfField":
						nOne++
					}
				}
			}
			return true
		})
	}
	if nOpt == 0 || nOne == 0 {
		die("generator tables: no optional / one-of field descriptions found")
	}
	fmt.Println("/-! REGENERATED by translators/cmd/pdatamsg from pdata/*/generated_*.go and the pdatagen tables — do not edit.")
	fmt.Println("Field schema of every generated message struct as its CopyTo treats it. -/")
	fmt.Println("namespace OtelVerif.Gen.PdataMsg")
	fmt.Println()
	fmt.Println("inductive Kind\n  | prim\n  | nested\n  | optional (clears : Bool)\n  | oneof (alts : Nat) (clears : Bool)\nderiving DecidableEq, Repr")
	fmt.Println()
	fmt.Println("structure Msg where\n  pkg : String\n  name : String\n  fields : List (String × Kind)\n  uncovered : List String\n  moveOk : Bool")
	fmt.Println()
	fmt.Printf("/-- descriptions in the generator's tables -/\ndef tableOptional : Nat := %d\ndef tableOneOf : Nat := %d\n\n", nOpt, nOne)
	fmt.Print("def msgs : List Msg := [")
	for i, m := range msgs {
		if i > 0 {
			fmt.Print(",")
		}
		fmt.Printf("\n  { pkg := %q, name := %q, moveOk := %v,\n    fields := [", m.pkg, m.name, m.moveOk)
		for j, f := range m.fields {
			if j > 0 {
				fmt.Print(", ")
			}
			switch f.kind {
			case "prim":
				fmt.Printf("(%q, .prim)", f.name)
			case "nested":
				fmt.Printf("(%q, .nested)", f.name)
			case "optional":
				fmt.Printf("(%q, .optional %v)", f.name, f.clears)
			case "oneof":
				fmt.Printf("(%q, .oneof %d %v)", f.name, f.alts, f.clears)
			}
		}
		fmt.Print("],\n    uncovered := [")
		for j, u := range m.uncovered {
			if j > 0 {
				fmt.Print(", ")
			}
			fmt.Printf("%q", u)
		}
		fmt.Print("] }")
	}
	fmt.Println("]")
	fmt.Println("\nend OtelVerif.Gen.PdataMsg")
}
