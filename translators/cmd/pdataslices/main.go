// pdataslices regenerates lean/OtelVerif/Gen/PdataSlices.lean and CHECKS (fail closed, exit 2) that every generated
// slice file of pdata is an instance of its template: after replacing the slice name, the element name and the origin
// type by placeholders, every function of every `generated_*slice.go` must be textually identical (go/printer
// normal form) to the same function of the reference instance of its kind:
//
//	slices of pointers   reference plog.LogRecordSlice        (slice.go.tmpl, type sliceOfPtrs)
//	slices of values     reference pmetric.ExemplarSlice      (slice.go.tmpl, type sliceOfValues)
//	primitive slices     reference pcommon.UInt64Slice        (primitive_slice.go.tmpl)
//	internal wrappers    reference internal UInt64Slice       (primitive_slice_internal.go.tmpl)
//
// so the Lean slice models, which are tied by exact differential to the reference instances (and, by the
// reflection harnesses, to every instance), speak about all of them.  Only names are emitted.
package main

import (
	"bytes"
	"fmt"
	"go/ast"
	"go/parser"
	"go/printer"
	"go/token"
	"os"
	"path/filepath"
	"regexp"
	"sort"
	"strings"
)

func die(format string, a ...any) {
	fmt.Fprintf(os.Stderr, "pdataslices: "+format+"\n", a...)
	os.Exit(2)
}

var fset = token.NewFileSet()

func src(n ast.Node) string {
	var b bytes.Buffer
	_ = printer.Fprint(&b, fset, n)
	return b.String()
}

type inst struct {
	pkg, name, kind, elem string
	funcs                 map[string]string // function name -> normalised source
}

func word(w string) *regexp.Regexp { return regexp.MustCompile(`\b` + regexp.QuoteMeta(w) + `\b`) }

// element slices: struct S { orig *[]*pkg.T | *[]pkg.T; state }, At returns E
func loadElemSlice(pkg, file string) *inst {
	af, err := parser.ParseFile(fset, file, nil, 0)
	if err != nil {
		die("parse %s: %v", file, err)
	}
	in := &inst{pkg: pkg, funcs: map[string]string{}}
	var origT string
	for _, d := range af.Decls {
		if gd, ok := d.(*ast.GenDecl); ok && gd.Tok == token.TYPE {
			for _, sp := range gd.Specs {
				ts := sp.(*ast.TypeSpec)
				if st, ok := ts.Type.(*ast.StructType); ok {
					for _, f := range st.Fields.List {
						if len(f.Names) == 1 && f.Names[0].Name == "orig" {
							in.name = ts.Name.Name
							t := src(f.Type)
							switch {
							case strings.HasPrefix(t, "*[]*"):
								in.kind, origT = "ptr", strings.TrimPrefix(t, "*[]*")
							case strings.HasPrefix(t, "*[]"):
								in.kind, origT = "value", strings.TrimPrefix(t, "*[]")
							default:
								die("%s: orig has unexpected type %s", file, t)
							}
						}
					}
				}
			}
		}
	}
	if in.name == "" {
		die("%s: no slice struct with an orig field", file)
	}
	for _, d := range af.Decls {
		if fd, ok := d.(*ast.FuncDecl); ok && fd.Name.Name == "At" && fd.Type.Results != nil {
			in.elem = src(fd.Type.Results.List[0].Type)
		}
	}
	if in.elem == "" {
		die("%s: no At method", file)
	}
	reps := []struct {
		re *regexp.Regexp
		to string
	}{
		{regexp.MustCompile(regexp.QuoteMeta(origT)), "ORIG"},
		{word("New" + in.name), "NewSLICE"}, {word("new" + in.name), "newSLICE"}, {word(in.name), "SLICE"},
		{word("new" + in.elem), "newELEM"}, {word(in.elem), "ELEM"},
	}
	for _, d := range af.Decls {
		fd, ok := d.(*ast.FuncDecl)
		if !ok {
			continue
		}
		t := src(fd)
		for _, r := range reps {
			t = r.re.ReplaceAllString(t, r.to)
		}
		name := fd.Name.Name
		for _, r := range reps {
			name = r.re.ReplaceAllString(name, r.to)
		}
		in.funcs[name] = t
	}
	return in
}

var fixedInt = []struct{ from, to string }{
	{"i int", "i INDEX"}, {"newCap int", "newCap INDEX"}, {"Len() int", "Len() INDEX"}, {"Seq2[int,", "Seq2[INDEX,"},
	{"func(int,", "func(INDEX,"},
}

// primitive slices (pcommon) and their internal wrappers
func loadPrim(pkg, file, kind string) *inst {
	af, err := parser.ParseFile(fset, file, nil, 0)
	if err != nil {
		die("parse %s: %v", file, err)
	}
	in := &inst{pkg: pkg, kind: kind, funcs: map[string]string{}}
	for _, d := range af.Decls {
		if gd, ok := d.(*ast.GenDecl); ok && gd.Tok == token.TYPE {
			for _, sp := range gd.Specs {
				in.name = sp.(*ast.TypeSpec).Name.Name
			}
		}
	}
	item := ""
	for _, d := range af.Decls {
		fd, ok := d.(*ast.FuncDecl)
		if !ok {
			continue
		}
		if fd.Name.Name == "At" && fd.Type.Results != nil {
			item = src(fd.Type.Results.List[0].Type)
		}
		if strings.HasPrefix(fd.Name.Name, "GetOrig") && fd.Type.Results != nil { // internal wrapper: *[]T
			item = strings.TrimPrefix(src(fd.Type.Results.List[0].Type), "*[]")
		}
	}
	if in.name == "" || item == "" {
		die("%s: no type / item type found", file)
	}
	in.elem = item
	lower := strings.ToLower(in.name[:1]) + in.name[1:]
	for _, d := range af.Decls {
		fd, ok := d.(*ast.FuncDecl)
		if !ok {
			continue
		}
		t := src(fd)
		for _, f := range fixedInt {
			t = strings.ReplaceAll(t, f.from, f.to)
		}
		t = word(item).ReplaceAllString(t, "ITEM")
		t = strings.ReplaceAll(t, in.name, "SLICE")
		t = strings.ReplaceAll(t, lower, "sLICE")
		name := strings.ReplaceAll(fd.Name.Name, in.name, "SLICE")
		in.funcs[name] = t
	}
	return in
}

// incomplete: instances that lack template functions (stale generated files), reviewed in Lean
var incomplete []string

func compare(ref, x *inst) {
	var names []string
	for n := range x.funcs {
		names = append(names, n)
		if _, ok := ref.funcs[n]; !ok {
			die("%s.%s has a function %s that the template instance %s.%s does not have", x.pkg, x.name, n, ref.pkg, ref.name)
		}
	}
	sort.Strings(names)
	var missing []string
	for n := range ref.funcs {
		if _, ok := x.funcs[n]; !ok {
			missing = append(missing, n)
		}
	}
	sort.Strings(missing)
	if len(missing) > 0 {
		incomplete = append(incomplete, fmt.Sprintf("(%q, %q, %q)", x.pkg, x.name, strings.Join(missing, ",")))
	}
	for _, n := range names {
		if x.funcs[n] != ref.funcs[n] {
			die("%s.%s: function %s is not the template body (reference %s.%s):\n--- got\n%s\n--- want\n%s", x.pkg, x.name, n, ref.pkg, ref.name, x.funcs[n], ref.funcs[n])
		}
	}
}

func main() {
	if len(os.Args) < 2 {
		die("usage: pdataslices <repo>")
	}
	root := filepath.Join(os.Args[1], "pdata")
	var elems, prims, wraps []*inst
	for _, p := range []string{"plog", "pmetric", "ptrace", "pprofile"} {
		files, _ := filepath.Glob(filepath.Join(root, p, "generated_*slice.go"))
		sort.Strings(files)
		for _, f := range files {
			if strings.HasSuffix(f, "_test.go") {
				continue
			}
			elems = append(elems, loadElemSlice(p, f))
		}
	}
	files, _ := filepath.Glob(filepath.Join(root, "pcommon", "generated_*slice.go"))
	sort.Strings(files)
	for _, f := range files {
		if !strings.HasSuffix(f, "_test.go") {
			prims = append(prims, loadPrim("pcommon", f, "prim"))
		}
	}
	files, _ = filepath.Glob(filepath.Join(root, "internal", "generated_wrapper_*slice.go"))
	sort.Strings(files)
	for _, f := range files {
		wraps = append(wraps, loadPrim("internal", f, "wrapper"))
	}
	if len(elems) < 25 || len(prims) < 6 || len(wraps) != len(prims) {
		die("found %d element slices, %d primitive slices, %d internal wrappers", len(elems), len(prims), len(wraps))
	}
	find := func(l []*inst, pkg, name string) *inst {
		for _, x := range l {
			if x.pkg == pkg && x.name == name {
				return x
			}
		}
		die("reference instance %s.%s not found", pkg, name)
		return nil
	}
	refPtr, refVal := find(elems, "plog", "LogRecordSlice"), find(elems, "pmetric", "ExemplarSlice")
	if refPtr.kind != "ptr" || refVal.kind != "value" {
		die("reference instances changed kind")
	}
	for _, x := range elems {
		if x.kind == "ptr" {
			compare(refPtr, x)
		} else {
			compare(refVal, x)
		}
	}
	refPrim, refWrap := find(prims, "pcommon", "UInt64Slice"), find(wraps, "internal", "UInt64Slice")
	for _, x := range prims {
		compare(refPrim, x)
	}
	for _, x := range wraps {
		compare(refWrap, x)
	}
	fmt.Println("/-! REGENERATED by translators/cmd/pdataslices from pdata/*/generated_*slice.go — do not edit.")
	fmt.Println("Every slice listed here was checked to be a textual instance of its template (the translator fails otherwise). -/")
	fmt.Println("namespace OtelVerif.Gen.PdataSlices")
	fmt.Println()
	fmt.Print("/-- (package, slice, element, kind) -/\ndef elemSlices : List (String × String × String × String) := [")
	for i, x := range elems {
		if i > 0 {
			fmt.Print(",")
		}
		fmt.Printf("\n  (%q, %q, %q, %q)", x.pkg, x.name, x.elem, x.kind)
	}
	fmt.Println("]")
	fmt.Print("\n/-- (slice, item type) -/\ndef primSlices : List (String × String) := [")
	for i, x := range prims {
		if i > 0 {
			fmt.Print(",")
		}
		fmt.Printf("\n  (%q, %q)", x.name, x.elem)
	}
	fmt.Println("]")
	fmt.Printf("\ndef nTemplateFunctionsPtr : Nat := %d\ndef nTemplateFunctionsValue : Nat := %d\ndef nTemplateFunctionsPrim : Nat := %d\n",
		len(refPtr.funcs), len(refVal.funcs), len(refPrim.funcs))
	fmt.Printf("\n/-- instances lacking template functions: (package, slice, missing functions) -/\ndef incomplete : List (String × String × String) := [%s]\n",
		strings.Join(incomplete, ", "))
	fmt.Println("\nend OtelVerif.Gen.PdataSlices")
}
