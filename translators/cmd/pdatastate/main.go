// pdatastate regenerates lean/OtelVerif/Gen/PdataState.lean: for every exported value-receiver method of every pdata
// wrapper type (pcommon, plog, pmetric, ptrace, pprofile) the facts the read-only clause of C07 depends on, as DATA:
//
//	asserts   the maximal prefix of statements of the form `<x>.state.AssertMutable()` / `<x>.getState().AssertMutable()`,
//	          each classified by WHOSE state is asserted (receiver / the single parameter / something else)
//	later     an AssertMutable occurs after that prefix
//	writes    the body writes through an expression containing `orig` (assignment, ++/--, copy())
//	cls       reader | guarded | delegating | unguarded  (same rule as translators/cmd/pdatacensus)
//	role      copy (CopyTo) | move (MoveTo, MoveAndAppendTo) | other
//	children  every wrapper constructed in the body (`new<W>(orig, state)` / `internal.New<W>(orig, state)`, also inside
//	          closures handed to the caller: Range, All) with the wrapper TYPE and WHOSE state it is given; calls of another
//	          method of the receiver that itself constructs wrappers (`es.At(…)` in AppendEmpty) contribute that method's children
//
// plus the payload types (those with MarkReadOnly), the root constructors (`New<T>()` with a fresh state), and per element
// slice the list of its exported methods.  Types are numbered (index into `types`), so that the Lean side decides over
// numbers only.  Exit 2 if the packages no longer have the expected shape.
package main

import (
	"bytes"
	"fmt"
	"go/ast"
	"go/parser"
	"go/printer"
	"go/token"
	"os"
	"path/filepath"
	"regexp"
	"sort"
	"strings"
)

func die(format string, a ...any) {
	fmt.Fprintf(os.Stderr, "pdatastate: "+format+"\n", a...)
	os.Exit(2)
}

var mutName = regexp.MustCompile(`^(Set|Put|Remove|Append|MoveTo$|MoveAndAppendTo$|CopyTo$|EnsureCapacity$|Sort$|Clear$|FromRaw$)`)

func src(fset *token.FileSet, n ast.Node) string {
	var b bytes.Buffer
	_ = printer.Fprint(&b, fset, n)
	return b.String()
}

func flat(fset *token.FileSet, n ast.Node) string { return strings.Join(strings.Fields(src(fset, n)), "") }

func writesOrig(fset *token.FileSet, body *ast.BlockStmt) bool {
	found := false
	ast.Inspect(body, func(n ast.Node) bool {
		switch s := n.(type) {
		case *ast.AssignStmt:
			if s.Tok == token.DEFINE {
				return true
			}
			for _, l := range s.Lhs {
				if strings.Contains(strings.ToLower(src(fset, l)), "orig") {
					found = true
				}
			}
		case *ast.IncDecStmt:
			if strings.Contains(strings.ToLower(src(fset, s.X)), "orig") {
				found = true
			}
		case *ast.CallExpr:
			if id, ok := s.Fun.(*ast.Ident); ok && id.Name == "copy" && len(s.Args) > 0 &&
				strings.Contains(strings.ToLower(src(fset, s.Args[0])), "orig") {
				found = true
			}
		}
		return true
	})
	return found
}

// owner of a state expression: "recv", "param", "other"
func whoOf(st, recv, param string) string {
	for _, c := range []struct{ name, who string }{{recv, "recv"}, {param, "param"}} {
		if c.name == "" {
			continue
		}
		if st == c.name+".state" || st == c.name+".getState()" ||
			regexp.MustCompile(`^internal\.Get\w+State\(internal\.\w+\(`+regexp.QuoteMeta(c.name)+`\)\)$`).MatchString(st) {
			return c.who
		}
	}
	return "other"
}

// assertStmt: if stmt is `<x>.AssertMutable()` return the flattened `<x>`
func assertStmt(fset *token.FileSet, s ast.Stmt) (string, bool) {
	es, ok := s.(*ast.ExprStmt)
	if !ok {
		return "", false
	}
	call, ok := es.X.(*ast.CallExpr)
	if !ok {
		return "", false
	}
	sel, ok := call.Fun.(*ast.SelectorExpr)
	if !ok || sel.Sel.Name != "AssertMutable" {
		return "", false
	}
	return flat(fset, sel.X), true
}

type child struct {
	typ string // qualified
	who string
}

type meth struct {
	pkg, typ, name string
	cls, role      string
	asserts        []string
	later, writes  bool
	children       []child
	recvCalls      []string // methods of the receiver called in the body
}

func main() {
	if len(os.Args) < 2 {
		die("usage: pdatastate <repo>")
	}
	root := filepath.Join(os.Args[1], "pdata")
	pkgs := []string{"pcommon", "plog", "pmetric", "ptrace", "pprofile"}
	type pkgInfo struct {
		fset   *token.FileSet
		files  []*ast.File
		fnames []string
	}
	info := map[string]*pkgInfo{}
	wrapper := map[string]map[string]bool{} // pkg -> type -> true
	byName := map[string][]string{}         // type name -> packages defining it
	for _, p := range pkgs {
		fset := token.NewFileSet()
		files, err := filepath.Glob(filepath.Join(root, p, "*.go"))
		if err != nil || len(files) == 0 {
			die("no go files in %s", p)
		}
		sort.Strings(files)
		pi := &pkgInfo{fset: fset}
		wrapper[p] = map[string]bool{}
		for _, f := range files {
			if strings.HasSuffix(f, "_test.go") {
				continue
			}
			af, err := parser.ParseFile(fset, f, nil, 0)
			if err != nil {
				die("parse %s: %v", f, err)
			}
			pi.files = append(pi.files, af)
			pi.fnames = append(pi.fnames, filepath.Base(f))
			for _, d := range af.Decls {
				gd, ok := d.(*ast.GenDecl)
				if !ok || gd.Tok != token.TYPE {
					continue
				}
				for _, sp := range gd.Specs {
					ts := sp.(*ast.TypeSpec)
					isW := false
					switch t := ts.Type.(type) {
					case *ast.StructType:
						for _, fl := range t.Fields.List {
							for _, nm := range fl.Names {
								if nm.Name == "state" {
									isW = true
								}
							}
						}
					case *ast.SelectorExpr:
						if x, ok := t.X.(*ast.Ident); ok && x.Name == "internal" {
							isW = true
						}
					}
					if isW && ts.Name.IsExported() {
						wrapper[p][ts.Name.Name] = true
						byName[ts.Name.Name] = append(byName[ts.Name.Name], p)
					}
				}
			}
		}
		info[p] = pi
	}
	resolve := func(pkg, name string) string {
		if wrapper[pkg][name] {
			return pkg + "." + name
		}
		if wrapper["pcommon"][name] {
			return "pcommon." + name
		}
		if len(byName[name]) == 1 {
			return byName[name][0] + "." + name
		}
		return ""
	}
	var all []*meth
	var payloads []string
	nRootCtors := 0
	sliceOps := map[string][]string{}
	for _, p := range pkgs {
		pi := info[p]
		n := 0
		for _, af := range pi.files {
			for _, d := range af.Decls {
				fd, ok := d.(*ast.FuncDecl)
				if !ok || fd.Body == nil || !fd.Name.IsExported() {
					continue
				}
				if fd.Recv == nil {
					// root constructors: New<T>() … with a state that is a fresh local
					if strings.HasPrefix(fd.Name.Name, "New") && strings.Contains(src(pi.fset, fd.Body), "internal.StateMutable") {
						nRootCtors++
					}
					continue
				}
				if len(fd.Recv.List) != 1 {
					continue
				}
				id, ok := fd.Recv.List[0].Type.(*ast.Ident)
				if !ok || !id.IsExported() || !wrapper[p][id.Name] {
					continue
				}
				if fd.Name.Name == "MarkReadOnly" {
					payloads = append(payloads, p+"."+id.Name)
					continue
				}
				recv, param := "", ""
				if len(fd.Recv.List[0].Names) == 1 {
					recv = fd.Recv.List[0].Names[0].Name
				}
				if fd.Type.Params != nil && len(fd.Type.Params.List) == 1 && len(fd.Type.Params.List[0].Names) == 1 {
					// only a parameter of the receiver's own type can be "the destination"
					if pt, ok := fd.Type.Params.List[0].Type.(*ast.Ident); ok && pt.Name == id.Name {
						param = fd.Type.Params.List[0].Names[0].Name
					}
				}
				m := &meth{pkg: p, typ: id.Name, name: fd.Name.Name, role: "other"}
				switch fd.Name.Name {
				case "CopyTo":
					m.role = "copy"
				case "MoveTo", "MoveAndAppendTo":
					m.role = "move"
				}
				i := 0
				for ; i < len(fd.Body.List); i++ {
					x, ok := assertStmt(pi.fset, fd.Body.List[i])
					if !ok {
						break
					}
					m.asserts = append(m.asserts, whoOf(x, recv, param))
				}
				for ; i < len(fd.Body.List); i++ {
					ast.Inspect(fd.Body.List[i], func(nd ast.Node) bool {
						if sel, ok := nd.(*ast.SelectorExpr); ok && sel.Sel.Name == "AssertMutable" {
							m.later = true
						}
						return true
					})
				}
				m.writes = writesOrig(pi.fset, fd.Body)
				isMut := mutName.MatchString(fd.Name.Name)
				switch {
				case (m.writes || isMut) && len(m.asserts) > 0:
					m.cls = "guarded"
				case m.writes:
					m.cls = "unguarded"
				case isMut:
					m.cls = "delegating"
				default:
					m.cls = "reader"
				}
				if m.cls == "delegating" {
					// the only accepted shape: `<recv>.A().CopyTo(<dest>.A())` — the guarded CopyTo of the child does the work
					ok := m.role == "copy" && recv != "" && param != "" && len(fd.Body.List) == 1
					if ok {
						ok = regexp.MustCompile(`^` + regexp.QuoteMeta(recv) + `\.(\w+)\(\)\.CopyTo\(` + regexp.QuoteMeta(param) + `\.(\w+)\(\)\)$`).
							MatchString(flat(pi.fset, fd.Body.List[0]))
					}
					if ok {
						sm := regexp.MustCompile(`\.(\w+)\(\)`).FindAllStringSubmatch(flat(pi.fset, fd.Body.List[0]), -1)
						ok = len(sm) >= 2 && sm[0][1] == sm[len(sm)-1][1]
					}
					if !ok {
						die("%s.%s.%s: mutator by name that neither asserts nor has the shape recv.A().CopyTo(dest.A())", p, id.Name, fd.Name.Name)
					}
				}
				ast.Inspect(fd.Body, func(nd ast.Node) bool {
					call, ok := nd.(*ast.CallExpr)
					if !ok {
						return true
					}
					f := flat(pi.fset, call.Fun)
					if sel, ok := call.Fun.(*ast.SelectorExpr); ok {
						if x, ok := sel.X.(*ast.Ident); ok && x.Name == recv && recv != "" {
							m.recvCalls = append(m.recvCalls, sel.Sel.Name)
						}
					}
					name := ""
					switch {
					case strings.HasPrefix(f, "internal.New") && len(call.Args) >= 2:
						name = strings.TrimPrefix(f, "internal.New")
					case strings.HasPrefix(f, "new") && len(f) > 3 && len(call.Args) >= 2 && !strings.Contains(f, "."):
						name = f[3:]
					default:
						return true
					}
					q := resolve(p, name)
					if q == "" {
						if strings.HasPrefix(f, "internal.New") {
							die("%s.%s.%s: cannot resolve the wrapper type built by %s", p, id.Name, fd.Name.Name, f)
						}
						return true // a lower-case helper that is not a wrapper constructor
					}
					st := flat(pi.fset, call.Args[len(call.Args)-1])
					m.children = append(m.children, child{q, whoOf(st, recv, param)})
					return true
				})
				all = append(all, m)
				n++
			}
		}
		if n < 10 {
			die("package %s: only %d exported value-receiver methods found", p, n)
		}
	}
	// second pass: a call of another method of the receiver hands on that method's children (AppendEmpty -> At)
	idx := map[string]*meth{}
	for _, m := range all {
		idx[m.pkg+"."+m.typ+"."+m.name] = m
	}
	for _, m := range all {
		own := len(m.children)
		_ = own
		seen := map[string]bool{}
		for _, c := range m.recvCalls {
			o, ok := idx[m.pkg+"."+m.typ+"."+c]
			if !ok || o == m || seen[c] {
				continue
			}
			seen[c] = true
			for _, ch := range o.children {
				if ch.who == "recv" || ch.who == "other" { // the callee's receiver is this receiver
					m.children = append(m.children, ch)
				} else {
					die("%s.%s.%s calls %s whose wrappers take a parameter's state", m.pkg, m.typ, m.name, c)
				}
			}
		}
	}
	sort.Slice(all, func(i, j int) bool {
		a, b := all[i], all[j]
		return a.pkg+"."+a.typ+"."+a.name < b.pkg+"."+b.typ+"."+b.name
	})
	sort.Strings(payloads)
	if len(payloads) < 4 {
		die("only %d payload types with MarkReadOnly found", len(payloads))
	}
	if len(all) < 700 {
		die("only %d methods found", len(all))
	}
	// type numbering: every wrapper type that has a method or is built as a child
	tset := map[string]bool{}
	for _, m := range all {
		tset[m.pkg+"."+m.typ] = true
		for _, c := range m.children {
			tset[c.typ] = true
		}
	}
	var types []string
	for t := range tset {
		types = append(types, t)
	}
	sort.Strings(types)
	tid := map[string]int{}
	for i, t := range types {
		tid[t] = i
	}
	for _, m := range all {
		q := m.pkg + "." + m.typ
		sliceOps[q] = append(sliceOps[q], m.name)
	}
	who := func(w string) string { return "." + w }
	fmt.Println("/-! REGENERATED by translators/cmd/pdatastate from pdata/{pcommon,plog,pmetric,ptrace,pprofile}/*.go — do not edit.")
	fmt.Println("Per exported value-receiver method of every wrapper type: the leading AssertMutable statements (whose state), whether it")
	fmt.Println("writes through orig, and every child wrapper it constructs (type, whose state it is given). -/")
	fmt.Println("namespace OtelVerif.Gen.PdataState")
	fmt.Println()
	fmt.Println("inductive Who | recv | param | other deriving DecidableEq, Repr")
	fmt.Println("inductive Cls | reader | guarded | delegating | unguarded deriving DecidableEq, Repr")
	fmt.Println("inductive Role | copy | move | other deriving DecidableEq, Repr")
	fmt.Println()
	fmt.Println("structure Child where\n  typ : Nat\n  who : Who\nderiving DecidableEq, Repr")
	fmt.Println()
	fmt.Println("structure Meth where\n  typ : Nat\n  name : String\n  role : Role\n  cls : Cls\n  asserts : List Who\n  later : Bool\n  writes : Bool\n  children : List Child\nderiving Repr")
	fmt.Println()
	fmt.Printf("/-- wrapper types; a type's number is its index here -/\ndef types : List String := [")
	for i, t := range types {
		if i > 0 {
			fmt.Print(",")
		}
		fmt.Printf("\n  %q", t)
	}
	fmt.Println("]")
	fmt.Printf("\n/-- the payload types (those with MarkReadOnly), by number -/\ndef payloads : List Nat := [")
	for i, t := range payloads {
		if i > 0 {
			fmt.Print(", ")
		}
		if _, ok := tid[t]; !ok {
			die("payload %s has no methods", t)
		}
		fmt.Printf("%d", tid[t])
	}
	fmt.Println("]")
	fmt.Printf("\n/-- exported `New…()` functions that create a fresh mutable state -/\ndef nRootCtors : Nat := %d\n", nRootCtors)
	// methods in chunks (keeps every single `decide` small)
	const chunk = 120
	nch := 0
	for lo := 0; lo < len(all); lo += chunk {
		hi := lo + chunk
		if hi > len(all) {
			hi = len(all)
		}
		fmt.Printf("\ndef meths%d : List Meth := [", nch)
		for i, m := range all[lo:hi] {
			if i > 0 {
				fmt.Print(",")
			}
			var as, cs []string
			for _, a := range m.asserts {
				as = append(as, who(a))
			}
			for _, c := range m.children {
				cs = append(cs, fmt.Sprintf("⟨%d, %s⟩", tid[c.typ], who(c.who)))
			}
			fmt.Printf("\n  ⟨%d, %q, .%s, .%s, [%s], %v, %v, [%s]⟩", tid[m.pkg+"."+m.typ], m.typ+"."+m.name, m.role, m.cls,
				strings.Join(as, ", "), m.later, m.writes, strings.Join(cs, ", "))
		}
		fmt.Println("]")
		nch++
	}
	fmt.Printf("\ndef chunks : List (List Meth) := [")
	for i := 0; i < nch; i++ {
		if i > 0 {
			fmt.Print(", ")
		}
		fmt.Printf("meths%d", i)
	}
	fmt.Println("]")
	fmt.Println("\ndef meths : List Meth := chunks.flatten")
	fmt.Printf("\ndef nMeths : Nat := %d\n", len(all))
	// element slices: wrapper types with AppendEmpty and RemoveIf
	fmt.Printf("\n/-- (package, element slice, its exported methods in alphabetical order) -/\ndef sliceOps : List (String × String × List String) := [")
	first := true
	var sliceOrder []string // package order of translators/cmd/pdataslices, then by name
	for _, pk := range []string{"plog", "pmetric", "ptrace", "pprofile", "pcommon"} {
		for _, t := range types {
			if strings.HasPrefix(t, pk+".") {
				sliceOrder = append(sliceOrder, t)
			}
		}
	}
	for _, t := range sliceOrder {
		ops := sliceOps[t]
		has := map[string]bool{}
		for _, o := range ops {
			has[o] = true
		}
		if !has["AppendEmpty"] || !has["RemoveIf"] || !strings.HasSuffix(t, "Slice") || t == "pcommon.Slice" {
			continue
		}
		sort.Strings(ops)
		var qs []string
		for _, o := range ops {
			qs = append(qs, fmt.Sprintf("%q", o))
		}
		if !first {
			fmt.Print(",")
		}
		first = false
		dot := strings.Index(t, ".")
		fmt.Printf("\n  (%q, %q, [%s])", t[:dot], t[dot+1:], strings.Join(qs, ", "))
	}
	fmt.Println("]")
	fmt.Println("\nend OtelVerif.Gen.PdataState")
}
