// pqkeys regenerates lean/OtelVerif/Gen/PQKeys.lean from
//   exporter/exporterhelper/internal/queuebatch/persistent_queue.go
// Only data is extracted: the four durable key names, the radix of getItemKey, the byte widths and byte order of
// the index codecs, and the moduli/remainders of the periodic queue-size back-ups.  If the source no longer has
// the expected shape the program exits 2 ("the tie no longer checks").
package main

import (
	"bytes"
	"fmt"
	"go/ast"
	"go/parser"
	"go/printer"
	"go/token"
	"os"
	"path/filepath"
	"strconv"
	"strings"
)

func die(format string, a ...any) {
	fmt.Fprintf(os.Stderr, "pqkeys: "+format+"\n", a...)
	os.Exit(2)
}

func funcDecl(f *ast.File, name string) *ast.FuncDecl {
	for _, d := range f.Decls {
		if fd, ok := d.(*ast.FuncDecl); ok && fd.Name.Name == name && fd.Body != nil {
			return fd
		}
	}
	die("function %s not found", name)
	return nil
}

func intLit(e ast.Expr) (int, bool) {
	if p, ok := e.(*ast.ParenExpr); ok {
		return intLit(p.X)
	}
	if b, ok := e.(*ast.BasicLit); ok && b.Kind == token.INT {
		n, err := strconv.Atoi(b.Value)
		return n, err == nil
	}
	return 0, false
}

// calls returns the selector/ident names of every call in the body, in source order
func calls(fd *ast.FuncDecl) []string {
	var out []string
	ast.Inspect(fd.Body, func(n ast.Node) bool {
		if c, ok := n.(*ast.CallExpr); ok {
			switch f := c.Fun.(type) {
			case *ast.SelectorExpr:
				q := f.Sel.Name
				if x, ok := f.X.(*ast.SelectorExpr); ok {
					q = x.Sel.Name + "." + q
				}
				out = append(out, q)
			case *ast.Ident:
				out = append(out, f.Name)
			}
		}
		return true
	})
	return out
}

// modEq finds `(<recv>.<field> % M) == R` in the body
func modEq(fd *ast.FuncDecl, field string) (int, int) {
	m, r, found := 0, 0, 0
	ast.Inspect(fd.Body, func(n ast.Node) bool {
		be, ok := n.(*ast.BinaryExpr)
		if !ok || be.Op != token.EQL {
			return true
		}
		l := be.X
		if p, ok := l.(*ast.ParenExpr); ok {
			l = p.X
		}
		rem, ok := l.(*ast.BinaryExpr)
		if !ok || rem.Op != token.REM {
			return true
		}
		sel, ok := rem.X.(*ast.SelectorExpr)
		if !ok || sel.Sel.Name != field {
			return true
		}
		mm, ok1 := intLit(rem.Y)
		rr, ok2 := intLit(be.Y)
		if ok1 && ok2 {
			m, r = mm, rr
			found++
		}
		return true
	})
	if found != 1 {
		die("%s: expected exactly one `(%s %% M) == R`, found %d", fd.Name.Name, field, found)
	}
	return m, r
}

// lenLess collects the literals N of every `len(buf) < N` in the body, in source order
func lenLess(fd *ast.FuncDecl) []int {
	var out []int
	ast.Inspect(fd.Body, func(n ast.Node) bool {
		be, ok := n.(*ast.BinaryExpr)
		if !ok || be.Op != token.LSS {
			return true
		}
		c, ok := be.X.(*ast.CallExpr)
		if !ok {
			return true
		}
		if id, ok := c.Fun.(*ast.Ident); !ok || id.Name != "len" {
			return true
		}
		if v, ok := intLit(be.Y); ok {
			out = append(out, v)
		}
		return true
	})
	return out
}

func main() {
	repo := os.Args[1]
	path := filepath.Join(repo, "exporter/exporterhelper/internal/queuebatch/persistent_queue.go")
	f, err := parser.ParseFile(token.NewFileSet(), path, nil, 0)
	if err != nil {
		die("%v", err)
	}
	// 1. key names
	keys := map[string]string{}
	for _, d := range f.Decls {
		gd, ok := d.(*ast.GenDecl)
		if !ok || gd.Tok != token.CONST {
			continue
		}
		for _, s := range gd.Specs {
			vs := s.(*ast.ValueSpec)
			for i, n := range vs.Names {
				if i < len(vs.Values) {
					if b, ok := vs.Values[i].(*ast.BasicLit); ok && b.Kind == token.STRING {
						v, _ := strconv.Unquote(b.Value)
						keys[n.Name] = v
					}
				}
			}
		}
	}
	want := []string{"readIndexKey", "writeIndexKey", "currentlyDispatchedItemsKey", "queueSizeKey"}
	for _, k := range want {
		if _, ok := keys[k]; !ok {
			die("const %s not found", k)
		}
	}
	// 2. getItemKey = strconv.FormatUint(index, <radix>)
	gk := funcDecl(f, "getItemKey")
	if len(gk.Body.List) != 1 {
		die("getItemKey: expected a single return statement")
	}
	ret, ok := gk.Body.List[0].(*ast.ReturnStmt)
	if !ok || len(ret.Results) != 1 {
		die("getItemKey: expected a single return statement")
	}
	call, ok := ret.Results[0].(*ast.CallExpr)
	if !ok || len(call.Args) != 2 {
		die("getItemKey: expected strconv.FormatUint(index, radix)")
	}
	if sel, ok := call.Fun.(*ast.SelectorExpr); !ok || sel.Sel.Name != "FormatUint" {
		die("getItemKey: expected strconv.FormatUint")
	}
	radix, ok := intLit(call.Args[1])
	if !ok {
		die("getItemKey: radix is not a literal")
	}
	// 3. codecs: byte order, widths
	expectCalls := map[string]string{
		"itemIndexToBytes":      "LittleEndian.AppendUint64",
		"bytesToItemIndex":      "uint64 len LittleEndian.Uint64",
		"itemIndexArrayToBytes": "len make LittleEndian.AppendUint32 uint32 LittleEndian.AppendUint64",
		"bytesToItemIndexArray": "len len int LittleEndian.Uint32 len make LittleEndian.Uint64",
	}
	for name, exp := range expectCalls {
		got := strings.Join(calls(funcDecl(f, name)), " ")
		if got != exp {
			die("%s: call sequence changed: got %q want %q", name, got, exp)
		}
	}
	w1 := lenLess(funcDecl(f, "bytesToItemIndex"))
	w2 := lenLess(funcDecl(f, "bytesToItemIndexArray"))
	if len(w1) != 1 || len(w2) != 1 {
		die("codec length checks changed: %v %v", w1, w2)
	}
	// element width: the literal of `size*8` (both in the guard and nowhere else as a product)
	elem := -1
	ast.Inspect(funcDecl(f, "bytesToItemIndexArray").Body, func(n ast.Node) bool {
		if be, ok := n.(*ast.BinaryExpr); ok && be.Op == token.MUL {
			if v, ok := intLit(be.Y); ok {
				if elem != -1 && elem != v {
					die("bytesToItemIndexArray: two different element widths")
				}
				elem = v
			}
		}
		return true
	})
	if elem == -1 {
		die("bytesToItemIndexArray: `size*W` not found")
	}
	// 4. periodic back-ups of the queue size
	wm, wr := modEq(funcDecl(f, "writeInternal"), "writeIndex")
	rm, rr := modEq(funcDecl(f, "onDone"), "readIndex")

	// 5. consumer glue: "Done is called with the outcome of the export, after it returned".  The loop of asyncQueue.Start and
	//    disabledBatcher.Consume must have exactly this shape (the batching consumer is C04's refCountDone model).
	render := func(fset *token.FileSet, n ast.Node) string {
		var b bytes.Buffer
		_ = printer.Fprint(&b, fset, n)
		return strings.Join(strings.Fields(b.String()), " ")
	}
	{
		fset := token.NewFileSet()
		af, err := parser.ParseFile(fset, filepath.Join(repo, "exporter/exporterhelper/internal/queuebatch/async_queue.go"), nil, 0)
		if err != nil {
			die("%v", err)
		}
		var loops []string
		ast.Inspect(funcDecl(af, "Start"), func(n ast.Node) bool {
			if fs, ok := n.(*ast.ForStmt); ok && fs.Cond == nil && fs.Init == nil {
				loops = append(loops, render(fset, fs.Body))
			}
			return true
		})
		want := "{ ctx, req, done, ok := qc.Read(context.Background()) if !ok { return } qc.consumeFunc(ctx, req, done) }"
		if len(loops) != 1 || loops[0] != want {
			die("asyncQueue.Start: consumer loop changed: %q", loops)
		}
		fset2 := token.NewFileSet()
		df, err := parser.ParseFile(fset2, filepath.Join(repo, "exporter/exporterhelper/internal/queuebatch/disabled_batcher.go"), nil, 0)
		if err != nil {
			die("%v", err)
		}
		got := render(fset2, funcDecl(df, "Consume").Body)
		if got != "{ done.OnDone(db.consumeFunc(ctx, req)) }" {
			die("disabledBatcher.Consume changed: %q", got)
		}
	}

	// 6. the rest of the glue as DATA (consumed by C01_gen_glue_shapes): what the model of Model/C01Glue.lean is written for
	parse := func(rel string) (*token.FileSet, *ast.File) {
		fs := token.NewFileSet()
		pf, err := parser.ParseFile(fs, filepath.Join(repo, rel), nil, 0)
		if err != nil {
			die("%v", err)
		}
		return fs, pf
	}
	// refCountDone.OnDone: how the errors of the flushes of one request are combined
	refCombine := ""
	{
		fs, pf := parse("exporter/exporterhelper/internal/queuebatch/default_batcher.go")
		for _, d := range pf.Decls {
			fd, ok := d.(*ast.FuncDecl)
			if !ok || fd.Name.Name != "OnDone" || fd.Recv == nil || !strings.Contains(render(fs, fd.Recv.List[0].Type), "refCountDone") {
				continue
			}
			ast.Inspect(fd.Body, func(n ast.Node) bool {
				if as, ok := n.(*ast.AssignStmt); ok && len(as.Lhs) == 1 && render(fs, as.Lhs[0]) == "rcd.err" {
					if refCombine != "" {
						die("refCountDone.OnDone: rcd.err is assigned more than once")
					}
					refCombine = render(fs, as.Rhs[0])
				}
				return true
			})
			if render(fs, fd.Body) != "{ rcd.mu.Lock() defer rcd.mu.Unlock() rcd.err = "+refCombine+" rcd.refCount-- if rcd.refCount == 0 { rcd.done.OnDone(rcd.err) } }" {
				die("refCountDone.OnDone changed: %q", render(fs, fd.Body))
			}
		}
		if refCombine == "" {
			die("refCountDone.OnDone: assignment to rcd.err not found")
		}
	}
	// NewQueueSender: the export closure returns the error of next.Send unchanged
	var exportReturns []string
	{
		fs, pf := parse("exporter/exporterhelper/internal/queue_sender.go")
		var lit *ast.FuncLit
		ast.Inspect(funcDecl(pf, "NewQueueSender"), func(n ast.Node) bool {
			if as, ok := n.(*ast.AssignStmt); ok && len(as.Lhs) == 1 && render(fs, as.Lhs[0]) == "exportFunc" {
				lit, _ = as.Rhs[0].(*ast.FuncLit)
			}
			return true
		})
		if lit == nil {
			die("NewQueueSender: exportFunc closure not found")
		}
		ast.Inspect(lit.Body, func(n ast.Node) bool {
			switch x := n.(type) {
			case *ast.IfStmt:
				exportReturns = append(exportReturns, "if "+render(fs, x.Init)+"; "+render(fs, x.Cond))
			case *ast.ReturnStmt:
				exportReturns = append(exportReturns, render(fs, x))
			}
			return true
		})
	}
	// retrySender.Send: what an attempt interrupted by stopCh returns; what a permanent error returns
	var stopReturns []string
	{
		fs, pf := parse("exporter/exporterhelper/internal/retry_sender.go")
		ast.Inspect(funcDecl(pf, "Send"), func(n ast.Node) bool {
			if cc, ok := n.(*ast.CommClause); ok && cc.Comm != nil && strings.Contains(render(fs, cc.Comm), "rs.stopCh") {
				var body []string
				for _, st := range cc.Body {
					body = append(body, render(fs, st))
				}
				stopReturns = append(stopReturns, strings.Join(body, "; "))
			}
			return true
		})
		if len(stopReturns) == 0 {
			die("retrySender.Send: no `case <-rs.stopCh` found")
		}
	}
	// persistentQueue.onDone: the condition under which the item is kept (an `if` whose body is a bare return)
	keepGuard := ""
	ast.Inspect(funcDecl(f, "onDone").Body, func(n ast.Node) bool {
		if is, ok := n.(*ast.IfStmt); ok && len(is.Body.List) == 1 {
			if r, ok := is.Body.List[0].(*ast.ReturnStmt); ok && len(r.Results) == 0 {
				if keepGuard != "" {
					die("onDone: two early returns")
				}
				fs0 := token.NewFileSet()
				keepGuard = render(fs0, is.Cond)
			}
		}
		return true
	})
	if keepGuard == "" {
		die("onDone: `if <shutdown error> { return }` not found")
	}
	// BaseExporter.Shutdown: the order in which the senders are shut down
	var shutOrder []string
	{
		fs, pf := parse("exporter/exporterhelper/internal/base_exporter.go")
		ast.Inspect(funcDecl(pf, "Shutdown"), func(n ast.Node) bool {
			if ce, ok := n.(*ast.CallExpr); ok {
				if sel, ok := ce.Fun.(*ast.SelectorExpr); ok && sel.Sel.Name == "Shutdown" {
					shutOrder = append(shutOrder, render(fs, sel.X))
				}
			}
			return true
		})
	}
	leanList := func(xs []string) string {
		q := make([]string, len(xs))
		for i, x := range xs {
			q[i] = strconv.Quote(x)
		}
		return "[" + strings.Join(q, ", ") + "]"
	}

	fmt.Println("/-! GENERATED by translators/cmd/pqkeys from exporter/exporterhelper/internal/queuebatch/persistent_queue.go — do not edit -/")
	fmt.Println("namespace OtelVerif.Gen.PQKeys")
	fmt.Printf("def readIndexKey : String := %q\n", keys["readIndexKey"])
	fmt.Printf("def writeIndexKey : String := %q\n", keys["writeIndexKey"])
	fmt.Printf("def dispatchedKey : String := %q\n", keys["currentlyDispatchedItemsKey"])
	fmt.Printf("def queueSizeKey : String := %q\n", keys["queueSizeKey"])
	fmt.Printf("/-- radix of `getItemKey` (`strconv.FormatUint(index, radix)`) -/\ndef itemKeyRadix : Nat := %d\n", radix)
	fmt.Printf("/-- `len(buf) < N` guard of `bytesToItemIndex` (little endian uint64) -/\ndef indexWidth : Nat := %d\n", w1[0])
	fmt.Printf("/-- `bytesToItemIndexArray`: width of the length prefix (little endian uint32) and of one element (`size*W`) -/\ndef arrayPrefixWidth : Nat := %d\ndef arrayElemWidth : Nat := %d\n", w2[0], elem)
	fmt.Printf("/-- `(writeIndex %% M) == R` of writeInternal, `(readIndex %% M) == R` of onDone -/\n")
	fmt.Printf("def writeBackupMod : Nat := %d\ndef writeBackupRem : Nat := %d\ndef readBackupMod : Nat := %d\ndef readBackupRem : Nat := %d\n", wm, wr, rm, rr)
	fmt.Println("/-- 1 = the consumer glue has the pinned shape: asyncQueue's loop is `Read; if !ok return; consumeFunc(ctx, req, done)` and\n    disabledBatcher.Consume is `done.OnDone(db.consumeFunc(ctx, req))` (otherwise the translator fails) -/")
	fmt.Println("def consumerGlueShapePinned : Nat := 1")
	fmt.Println("/-- the glue between `Read` and `Done` as data (statements rendered by go/printer, blanks normalised); the glue machine\n    `Model/C01Glue.lean` is written for exactly these (`C01_gen_glue_shapes`) -/")
	fmt.Printf("def refCountCombine : String := %q\n", refCombine)
	fmt.Printf("def exportFuncShape : List String := %s\n", leanList(exportReturns))
	fmt.Printf("def retryStopReturns : List String := %s\n", leanList(stopReturns))
	fmt.Printf("def onDoneKeepGuard : String := %q\n", keepGuard)
	fmt.Printf("def baseExporterShutdownOrder : List String := %s\n", leanList(shutOrder))
	fmt.Println("end OtelVerif.Gen.PQKeys")
}
