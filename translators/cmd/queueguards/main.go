// queueguards regenerates lean/OtelVerif/Gen/QueueGuards.lean from
//   exporter/exporterhelper/internal/queuebatch/memory_queue.go and persistent_queue.go
// Only straight-line code is extracted, as data:
//   * the guard sequence of memoryQueue.Offer before `mq.add` (`if <lhs> <op> <rhs> { return <err> }`),
//   * the overflow loop of memoryQueue.add and of persistentQueue.putInternal: the loop condition, the guards inside the loop
//     (up to the `hasMoreSpace.Wait(ctx)`), the guards between the loop and the size update,
//   * every call site of Signal / Broadcast on hasMoreSpace / hasMoreElements, in source order.
// If the source no longer has the expected shape the program exits 2 ("the tie no longer checks").
package main

import (
	"fmt"
	"go/ast"
	"go/parser"
	"go/token"
	"os"
	"path/filepath"
	"strings"
)

func die(format string, a ...any) {
	fmt.Fprintf(os.Stderr, "queueguards: "+format+"\n", a...)
	os.Exit(2)
}

type guard struct{ lhs, op, rhs, ret string }

func method(f *ast.File, recv, name string) *ast.FuncDecl {
	for _, d := range f.Decls {
		fd, ok := d.(*ast.FuncDecl)
		if !ok || fd.Name.Name != name || fd.Recv == nil || len(fd.Recv.List) != 1 || fd.Body == nil {
			continue
		}
		if recvName(fd) == recv {
			return fd
		}
	}
	die("method %s.%s not found", recv, name)
	return nil
}

func recvName(fd *ast.FuncDecl) string {
	t := fd.Recv.List[0].Type
	if s, ok := t.(*ast.StarExpr); ok {
		t = s.X
	}
	switch x := t.(type) {
	case *ast.IndexExpr:
		if id, ok := x.X.(*ast.Ident); ok {
			return id.Name
		}
	case *ast.Ident:
		return x.Name
	}
	return ""
}

// operand names: the element size, 0, the capacity, size+element size, the two flags
func operand(e ast.Expr) string {
	switch x := e.(type) {
	case *ast.ParenExpr:
		return operand(x.X)
	case *ast.Ident:
		switch x.Name {
		case "elSize", "reqSize":
			return "elSize"
		}
	case *ast.BasicLit:
		if x.Kind == token.INT && x.Value == "0" {
			return "0"
		}
	case *ast.SelectorExpr:
		switch sel(x) {
		case "mq.cap", "pq.set.capacity":
			return "cap"
		case "mq.stopped", "pq.stopped":
			return "stopped"
		case "mq.blockOnOverflow", "pq.set.blockOnOverflow":
			return "blockOnOverflow"
		}
	case *ast.BinaryExpr:
		if x.Op == token.ADD {
			l, lok := x.X.(*ast.SelectorExpr)
			if lok && (sel(l) == "mq.size" || sel(l) == "pq.queueSize") && operand(x.Y) == "elSize" {
				return "size+elSize"
			}
		}
	}
	die("unknown operand %T", e)
	return ""
}

func sel(e ast.Expr) string {
	switch x := e.(type) {
	case *ast.Ident:
		return x.Name
	case *ast.SelectorExpr:
		return sel(x.X) + "." + x.Sel.Name
	}
	return "?"
}

// cond -> (lhs, op, rhs); a bare flag is (flag, "id", "0"), a negated flag (flag, "!", "0")
func cond(e ast.Expr) (string, string, string) {
	switch x := e.(type) {
	case *ast.ParenExpr:
		return cond(x.X)
	case *ast.BinaryExpr:
		switch x.Op {
		case token.EQL, token.LEQ, token.LSS, token.GTR, token.GEQ, token.NEQ:
			return operand(x.X), x.Op.String(), operand(x.Y)
		}
	case *ast.UnaryExpr:
		if x.Op == token.NOT {
			return operand(x.X), "!", "0"
		}
	case *ast.SelectorExpr:
		return operand(x), "id", "0"
	}
	die("unknown condition %T", e)
	return "", "", ""
}

// the error a `return ...` statement returns (last result)
func retName(s ast.Stmt) string {
	r, ok := s.(*ast.ReturnStmt)
	if !ok || len(r.Results) == 0 {
		die("guard body is not a return statement")
	}
	switch x := r.Results[len(r.Results)-1].(type) {
	case *ast.Ident:
		switch x.Name {
		case "nil", "errInvalidSize", "errSizeTooLarge", "ErrQueueIsFull", "errQueueIsStopped":
			return x.Name
		}
		die("unknown returned error %s", x.Name)
	}
	die("unknown return expression")
	return ""
}

// plain guard: `if <cond> { return ... }` without init and else
func asGuard(s ast.Stmt) (guard, bool) {
	i, ok := s.(*ast.IfStmt)
	if !ok || i.Init != nil || i.Else != nil || len(i.Body.List) != 1 {
		return guard{}, false
	}
	l, o, r := cond(i.Cond)
	return guard{l, o, r, retName(i.Body.List[0])}, true
}

// `if err := X.hasMoreSpace.Wait(ctx); err != nil { return ..., err }`
func isWait(s ast.Stmt) bool {
	i, ok := s.(*ast.IfStmt)
	if !ok || i.Init == nil {
		return false
	}
	as, ok := i.Init.(*ast.AssignStmt)
	if !ok || len(as.Rhs) != 1 {
		return false
	}
	c, ok := as.Rhs[0].(*ast.CallExpr)
	if !ok {
		return false
	}
	f, ok := c.Fun.(*ast.SelectorExpr)
	return ok && f.Sel.Name == "Wait" && strings.HasSuffix(sel(f.X), ".hasMoreSpace")
}

// overflow loop: `for <cond> { guards...; wait }` then guards until the first statement that is not a guard
func overflowLoop(fd *ast.FuncDecl) (guard, []guard, []guard) {
	for idx, s := range fd.Body.List {
		f, ok := s.(*ast.ForStmt)
		if !ok {
			continue
		}
		if f.Init != nil || f.Post != nil || f.Cond == nil {
			die("%s: overflow loop has an unexpected header", fd.Name.Name)
		}
		l, o, r := cond(f.Cond)
		var body []guard
		n := len(f.Body.List)
		if n == 0 || !isWait(f.Body.List[n-1]) {
			die("%s: the overflow loop does not end with hasMoreSpace.Wait", fd.Name.Name)
		}
		for _, b := range f.Body.List[:n-1] {
			g, ok := asGuard(b)
			if !ok {
				die("%s: unexpected statement inside the overflow loop", fd.Name.Name)
			}
			body = append(body, g)
		}
		var after []guard
		for _, b := range fd.Body.List[idx+1:] {
			g, ok := asGuard(b)
			if !ok {
				break
			}
			after = append(after, g)
		}
		return guard{l, o, r, ""}, body, after
	}
	die("%s: no overflow loop", fd.Name.Name)
	return guard{}, nil, nil
}

func lean(gs []guard) string {
	var parts []string
	for _, g := range gs {
		parts = append(parts, fmt.Sprintf("(%q, %q, %q, %q)", g.lhs, g.op, g.rhs, g.ret))
	}
	return "[" + strings.Join(parts, ", ") + "]"
}

func main() {
	if len(os.Args) < 2 {
		die("usage: queueguards <repo>")
	}
	dir := filepath.Join(os.Args[1], "exporter/exporterhelper/internal/queuebatch")
	fset := token.NewFileSet()
	parse := func(name string) *ast.File {
		f, err := parser.ParseFile(fset, filepath.Join(dir, name), nil, 0)
		if err != nil {
			die("%v", err)
		}
		return f
	}
	mf, pf := parse("memory_queue.go"), parse("persistent_queue.go")

	// memoryQueue.Offer: `elSize := mq.sizer.Sizeof(el)`, guards, then `done, err := mq.add(ctx, el, elSize)`
	offer := method(mf, "memoryQueue", "Offer")
	var offerGuards []guard
	seenAdd := false
	for i, s := range offer.Body.List {
		if i == 0 {
			as, ok := s.(*ast.AssignStmt)
			if !ok || len(as.Lhs) != 1 || sel(as.Lhs[0]) != "elSize" {
				die("Offer does not start with `elSize := ...`")
			}
			continue
		}
		if g, ok := asGuard(s); ok {
			offerGuards = append(offerGuards, g)
			continue
		}
		as, ok := s.(*ast.AssignStmt)
		if ok && len(as.Rhs) == 1 {
			if c, ok := as.Rhs[0].(*ast.CallExpr); ok && sel(c.Fun) == "mq.add" {
				seenAdd = true
				break
			}
		}
		die("Offer: unexpected statement before mq.add")
	}
	if !seenAdd {
		die("Offer: no call of mq.add")
	}
	mc, mb, ma := overflowLoop(method(mf, "memoryQueue", "add"))
	pc, pb, pa := overflowLoop(method(pf, "persistentQueue", "putInternal"))

	// call sites of Signal / Broadcast on the two condition variables
	var sites []string
	for _, f := range []*ast.File{mf, pf} {
		for _, d := range f.Decls {
			fd, ok := d.(*ast.FuncDecl)
			if !ok || fd.Body == nil || fd.Recv == nil {
				continue
			}
			owner := recvName(fd) + "." + fd.Name.Name
			ast.Inspect(fd.Body, func(n ast.Node) bool {
				c, ok := n.(*ast.CallExpr)
				if !ok {
					return true
				}
				s, ok := c.Fun.(*ast.SelectorExpr)
				if !ok || (s.Sel.Name != "Signal" && s.Sel.Name != "Broadcast") {
					return true
				}
				x, ok := s.X.(*ast.SelectorExpr)
				if !ok || (x.Sel.Name != "hasMoreSpace" && x.Sel.Name != "hasMoreElements") {
					return true
				}
				sites = append(sites, fmt.Sprintf("(%q, %q, %q)", owner, x.Sel.Name, s.Sel.Name))
				return true
			})
		}
	}
	if len(sites) == 0 {
		die("no Signal/Broadcast call sites found")
	}

	fmt.Println("/-! GENERATED by translators/cmd/queueguards from exporter/exporterhelper/internal/queuebatch/{memory_queue,persistent_queue}.go — do not edit -/")
	fmt.Println("namespace OtelVerif.Gen.QueueGuards")
	fmt.Println("/-- guards of `memoryQueue.Offer` before `mq.add`, in source order: (lhs, operator, rhs, returned error) -/")
	fmt.Printf("def memOffer : List (String × String × String × String) := %s\n", lean(offerGuards))
	fmt.Println("/-- `memoryQueue.add`: condition of the overflow loop, guards inside the loop (before `hasMoreSpace.Wait`), guards after it -/")
	fmt.Printf("def memLoopCond : String × String × String := (%q, %q, %q)\n", mc.lhs, mc.op, mc.rhs)
	fmt.Printf("def memLoopBody : List (String × String × String × String) := %s\n", lean(mb))
	fmt.Printf("def memAfterLoop : List (String × String × String × String) := %s\n", lean(ma))
	fmt.Println("/-- `persistentQueue.putInternal`: the same three pieces -/")
	fmt.Printf("def pqLoopCond : String × String × String := (%q, %q, %q)\n", pc.lhs, pc.op, pc.rhs)
	fmt.Printf("def pqLoopBody : List (String × String × String × String) := %s\n", lean(pb))
	fmt.Printf("def pqAfterLoop : List (String × String × String × String) := %s\n", lean(pa))
	fmt.Println("/-- every call of Signal / Broadcast on hasMoreSpace / hasMoreElements: (method, condition variable, call), in source order -/")
	fmt.Printf("def condSites : List (String × String × String) := [%s]\n", strings.Join(sites, ",\n  "))
	fmt.Println("end OtelVerif.Gen.QueueGuards")
}
