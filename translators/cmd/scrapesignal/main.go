// scrapesignal regenerates lean/OtelVerif/Gen/ScrapeSignal.lean from
//
//	scraper/scraperhelper/controller.go   (which receiverhelper Start*Op / End*Op the functions scrapeLogs and
//	                                       scrapeMetrics call on c.obsrecv)
//	receiver/receiverhelper/obsreport.go  (the pipeline.Signal each End*Op hands to endOp; the instrument pair that
//	                                       each case of the recordMetrics switch selects; the accepted/refused split
//	                                       of endOp)
//
// Only data is extracted (selector names, switch rows). Signals are emitted as Nat codes
// 0 = traces, 1 = metrics, 2 = logs. If the source no longer has the expected shape the program exits 2
// ("the tie no longer checks").
package main

import (
	"fmt"
	"go/ast"
	"go/parser"
	"go/token"
	"os"
	"path/filepath"
	"strings"
)

func die(format string, a ...any) {
	fmt.Fprintf(os.Stderr, "scrapesignal: "+format+"\n", a...)
	os.Exit(2)
}

func parse(path string) *ast.File {
	f, err := parser.ParseFile(token.NewFileSet(), path, nil, 0)
	if err != nil {
		die("%v", err)
	}
	return f
}

var sigCode = map[string]int{"Traces": 0, "Metrics": 1, "Logs": 2}

// pipeline.SignalTraces -> 0 …
func pipelineSignal(e ast.Expr) (int, bool) {
	se, ok := e.(*ast.SelectorExpr)
	if !ok {
		return 0, false
	}
	if id, ok := se.X.(*ast.Ident); !ok || id.Name != "pipeline" {
		return 0, false
	}
	c, ok := sigCode[strings.TrimPrefix(se.Sel.Name, "Signal")]
	return c, ok && strings.HasPrefix(se.Sel.Name, "Signal")
}

func funcDecl(f *ast.File, name string, recv bool) *ast.FuncDecl {
	for _, d := range f.Decls {
		if fd, ok := d.(*ast.FuncDecl); ok && fd.Name.Name == name && (fd.Recv != nil) == recv && fd.Body != nil {
			return fd
		}
	}
	return nil
}

// the Start*Op / End*Op selector names called on <x>.obsrecv inside fn
func obsrecvOps(f *ast.File, fn string) (start, end string) {
	fd := funcDecl(f, fn, false)
	if fd == nil {
		die("func %s not found in controller.go", fn)
	}
	var starts, ends []string
	ast.Inspect(fd.Body, func(n ast.Node) bool {
		call, ok := n.(*ast.CallExpr)
		if !ok {
			return true
		}
		se, ok := call.Fun.(*ast.SelectorExpr)
		if !ok {
			return true
		}
		inner, ok := se.X.(*ast.SelectorExpr)
		if !ok || inner.Sel.Name != "obsrecv" {
			return true
		}
		switch {
		case strings.HasPrefix(se.Sel.Name, "Start") && strings.HasSuffix(se.Sel.Name, "Op"):
			starts = append(starts, se.Sel.Name)
		case strings.HasPrefix(se.Sel.Name, "End") && strings.HasSuffix(se.Sel.Name, "Op"):
			ends = append(ends, se.Sel.Name)
		default:
			die("%s: unexpected call obsrecv.%s", fn, se.Sel.Name)
		}
		return true
	})
	if len(starts) != 1 || len(ends) != 1 {
		die("%s: expected exactly one obsrecv.Start*Op and one obsrecv.End*Op call, found %v / %v", fn, starts, ends)
	}
	return starts[0], ends[0]
}

func opSignalName(op, prefix string) string {
	return strings.TrimSuffix(strings.TrimPrefix(op, prefix), "Op")
}

func main() {
	if len(os.Args) < 2 {
		die("usage: scrapesignal <repo>")
	}
	repo := os.Args[1]
	cf := parse(filepath.Join(repo, "scraper/scraperhelper/controller.go"))
	of := parse(filepath.Join(repo, "receiver/receiverhelper/obsreport.go"))

	// 1. End<X>Op -> the pipeline.Signal it passes to endOp (last argument); Start<X>Op exists for the same X
	endSig := map[string]int{}
	for name := range sigCode {
		fd := funcDecl(of, "End"+name+"Op", true)
		if fd == nil {
			die("method End%sOp not found in obsreport.go", name)
		}
		if funcDecl(of, "Start"+name+"Op", true) == nil {
			die("method Start%sOp not found in obsreport.go", name)
		}
		if len(fd.Body.List) != 1 {
			die("End%sOp: body is not a single call", name)
		}
		es, ok := fd.Body.List[0].(*ast.ExprStmt)
		if !ok {
			die("End%sOp: body is not a single call", name)
		}
		call, ok := es.X.(*ast.CallExpr)
		if !ok || len(call.Args) != 5 {
			die("End%sOp: expected rec.endOp(ctx, format, n, err, signal)", name)
		}
		if se, ok := call.Fun.(*ast.SelectorExpr); !ok || se.Sel.Name != "endOp" {
			die("End%sOp does not call endOp", name)
		}
		// the count and the error are passed through unchanged (3rd / 4th parameter of the method)
		params := []string{}
		for _, fl := range fd.Type.Params.List {
			for _, n := range fl.Names {
				params = append(params, n.Name)
			}
		}
		if len(params) != 4 {
			die("End%sOp: expected 4 parameters", name)
		}
		for k := 0; k < 4; k++ {
			id, ok := call.Args[k].(*ast.Ident)
			if !ok || id.Name != params[k] {
				die("End%sOp: argument %d of endOp is not the method's parameter %s", name, k, params[k])
			}
		}
		c, ok := pipelineSignal(call.Args[4])
		if !ok {
			die("End%sOp: last argument of endOp is not a pipeline.Signal* constant", name)
		}
		endSig["End"+name+"Op"] = c
	}

	// 2. recordMetrics: switch signal { case pipeline.SignalX: acceptedMeasure = …ReceiverAcceptedY; refusedMeasure = …ReceiverRefusedZ }
	instr := map[string][2]int{ // instrument field -> (0 accepted | 1 refused, signal code)
		"ReceiverAcceptedSpans": {0, 0}, "ReceiverRefusedSpans": {1, 0},
		"ReceiverAcceptedMetricPoints": {0, 1}, "ReceiverRefusedMetricPoints": {1, 1},
		"ReceiverAcceptedLogRecords": {0, 2}, "ReceiverRefusedLogRecords": {1, 2},
	}
	rm := funcDecl(of, "recordMetrics", true)
	if rm == nil {
		die("recordMetrics not found")
	}
	type row struct{ sig, acc, ref int }
	var rows []row
	nSwitch := 0
	for _, st := range rm.Body.List {
		sw, ok := st.(*ast.SwitchStmt)
		if !ok {
			continue
		}
		nSwitch++
		if id, ok := sw.Tag.(*ast.Ident); !ok || id.Name != "signal" {
			die("recordMetrics: switch is not on `signal`")
		}
		for _, cc := range sw.Body.List {
			cl := cc.(*ast.CaseClause)
			if len(cl.List) != 1 {
				die("recordMetrics: case with %d expressions (default or multi-valued)", len(cl.List))
			}
			s, ok := pipelineSignal(cl.List[0])
			if !ok {
				die("recordMetrics: case is not a pipeline.Signal* constant")
			}
			r := row{sig: s, acc: -1, ref: -1}
			if len(cl.Body) != 2 {
				die("recordMetrics: case body is not two assignments")
			}
			for _, b := range cl.Body {
				as, ok := b.(*ast.AssignStmt)
				if !ok || len(as.Lhs) != 1 || len(as.Rhs) != 1 || as.Tok != token.ASSIGN {
					die("recordMetrics: case body is not two assignments")
				}
				lhs, ok := as.Lhs[0].(*ast.Ident)
				rhs, ok2 := as.Rhs[0].(*ast.SelectorExpr)
				if !ok || !ok2 {
					die("recordMetrics: unexpected assignment shape")
				}
				in, known := instr[rhs.Sel.Name]
				if !known {
					die("recordMetrics: unknown instrument %s", rhs.Sel.Name)
				}
				switch lhs.Name {
				case "acceptedMeasure":
					if in[0] != 0 {
						die("recordMetrics: acceptedMeasure is assigned a refused instrument (%s)", rhs.Sel.Name)
					}
					r.acc = in[1]
				case "refusedMeasure":
					if in[0] != 1 {
						die("recordMetrics: refusedMeasure is assigned an accepted instrument (%s)", rhs.Sel.Name)
					}
					r.ref = in[1]
				default:
					die("recordMetrics: assignment to %s", lhs.Name)
				}
			}
			if r.acc < 0 || r.ref < 0 {
				die("recordMetrics: case does not assign both measures")
			}
			rows = append(rows, r)
		}
	}
	if nSwitch != 1 || len(rows) == 0 {
		die("recordMetrics: expected exactly one switch with cases")
	}
	// the two Add calls: acceptedMeasure.Add(ctx, int64(numAccepted), …), refusedMeasure.Add(ctx, int64(numRefused), …)
	adds := map[string]string{}
	ast.Inspect(rm.Body, func(n ast.Node) bool {
		call, ok := n.(*ast.CallExpr)
		if !ok {
			return true
		}
		se, ok := call.Fun.(*ast.SelectorExpr)
		if !ok || se.Sel.Name != "Add" || len(call.Args) < 2 {
			return true
		}
		x, ok := se.X.(*ast.Ident)
		conv, ok2 := call.Args[1].(*ast.CallExpr)
		if !ok || !ok2 || len(conv.Args) != 1 {
			die("recordMetrics: unexpected Add call shape")
		}
		arg, ok := conv.Args[0].(*ast.Ident)
		if !ok {
			die("recordMetrics: unexpected Add argument")
		}
		if _, dup := adds[x.Name]; dup {
			die("recordMetrics: %s.Add called twice", x.Name)
		}
		adds[x.Name] = arg.Name
		return true
	})
	if len(adds) != 2 || adds["acceptedMeasure"] != "numAccepted" || adds["refusedMeasure"] != "numRefused" {
		die("recordMetrics: expected acceptedMeasure.Add(numAccepted) and refusedMeasure.Add(numRefused), found %v", adds)
	}

	// 3. endOp: numAccepted := numReceivedItems; numRefused := 0; if err != nil { numAccepted = 0; numRefused = numReceivedItems };
	//    … rec.recordMetrics(ctx, signal, numAccepted, numRefused)
	eo := funcDecl(of, "endOp", true)
	if eo == nil || len(eo.Body.List) < 4 {
		die("endOp not found")
	}
	splitOK := func() bool {
		a0, ok := eo.Body.List[0].(*ast.AssignStmt)
		if !ok || a0.Tok != token.DEFINE || identName(a0.Lhs[0]) != "numAccepted" || identName(a0.Rhs[0]) != "numReceivedItems" {
			return false
		}
		a1, ok := eo.Body.List[1].(*ast.AssignStmt)
		if !ok || a1.Tok != token.DEFINE || identName(a1.Lhs[0]) != "numRefused" || litVal(a1.Rhs[0]) != "0" {
			return false
		}
		ifs, ok := eo.Body.List[2].(*ast.IfStmt)
		if !ok || ifs.Else != nil || ifs.Init != nil || len(ifs.Body.List) != 2 {
			return false
		}
		cond, ok := ifs.Cond.(*ast.BinaryExpr)
		if !ok || cond.Op != token.NEQ || identName(cond.X) != "err" || identName(cond.Y) != "nil" {
			return false
		}
		b0, ok := ifs.Body.List[0].(*ast.AssignStmt)
		if !ok || b0.Tok != token.ASSIGN || identName(b0.Lhs[0]) != "numAccepted" || litVal(b0.Rhs[0]) != "0" {
			return false
		}
		b1, ok := ifs.Body.List[1].(*ast.AssignStmt)
		if !ok || b1.Tok != token.ASSIGN || identName(b1.Lhs[0]) != "numRefused" || identName(b1.Rhs[0]) != "numReceivedItems" {
			return false
		}
		return true
	}()
	if !splitOK {
		die("endOp: the accepted/refused split no longer has the shape {numAccepted := n; numRefused := 0; if err != nil {numAccepted = 0; numRefused = n}}")
	}
	nRec := 0
	ast.Inspect(eo.Body, func(n ast.Node) bool {
		call, ok := n.(*ast.CallExpr)
		if !ok {
			return true
		}
		if se, ok := call.Fun.(*ast.SelectorExpr); ok && se.Sel.Name == "recordMetrics" {
			nRec++
			if len(call.Args) != 4 || identName(call.Args[1]) != "signal" || identName(call.Args[2]) != "numAccepted" || identName(call.Args[3]) != "numRefused" {
				die("endOp: expected rec.recordMetrics(ctx, signal, numAccepted, numRefused)")
			}
		}
		return true
	})
	if nRec != 1 {
		die("endOp: expected exactly one recordMetrics call, found %d", nRec)
	}

	// 4. the scrape functions
	ls, le := obsrecvOps(cf, "scrapeLogs")
	ms, me := obsrecvOps(cf, "scrapeMetrics")
	code := func(fn, op, prefix string) int {
		c, ok := sigCode[opSignalName(op, prefix)]
		if !ok {
			die("%s: unknown receiver operation %s", fn, op)
		}
		if prefix == "End" {
			return endSig[op]
		}
		return c
	}

	var b strings.Builder
	b.WriteString("/- GENERATED by /verif/translators/cmd/scrapesignal from scraper/scraperhelper/controller.go and\n   receiver/receiverhelper/obsreport.go — do not edit.  Signal codes: 0 = traces, 1 = metrics, 2 = logs. -/\n")
	b.WriteString("namespace OtelVerif.Gen.ScrapeSignal\n\n")
	fmt.Fprintf(&b, "/-- `scrapeLogs`: the operation it opens on `c.obsrecv` (decides the span name only) -/\ndef scrapeLogsStartOp : String := %q\ndef scrapeLogsStartSig : Nat := %d\n\n", ls, code("scrapeLogs", ls, "Start"))
	fmt.Fprintf(&b, "/-- `scrapeLogs`: the operation it ends on `c.obsrecv`; the code is the `pipeline.Signal` that this `End*Op` hands to `endOp`\n(decides the accepted/refused counters and span attribute keys) -/\ndef scrapeLogsEndOp : String := %q\ndef scrapeLogsEndSig : Nat := %d\n\n", le, code("scrapeLogs", le, "End"))
	fmt.Fprintf(&b, "/-- `scrapeMetrics`, likewise -/\ndef scrapeMetricsStartOp : String := %q\ndef scrapeMetricsStartSig : Nat := %d\ndef scrapeMetricsEndOp : String := %q\ndef scrapeMetricsEndSig : Nat := %d\n\n", ms, code("scrapeMetrics", ms, "Start"), me, code("scrapeMetrics", me, "End"))
	b.WriteString("/-- receiverhelper: `End<X>Op` → signal handed to `endOp`, rows (X, signal) in the order traces, metrics, logs -/\ndef endOpSignal : List (Nat × Nat) := [")
	for i, n := range []string{"Traces", "Metrics", "Logs"} {
		if i > 0 {
			b.WriteString(", ")
		}
		fmt.Fprintf(&b, "(%d, %d)", sigCode[n], endSig["End"+n+"Op"])
	}
	b.WriteString("]\n\n/-- `recordMetrics` switch, rows in source order: (case signal, signal of the accepted instrument, signal of the refused instrument);\nthe accepted instrument receives `numAccepted`, the refused one `numRefused` (checked by the translator, as is the\n`if err != nil` split of `endOp`) -/\ndef recordTable : List (Nat × Nat × Nat) := [")
	for i, r := range rows {
		if i > 0 {
			b.WriteString(", ")
		}
		fmt.Fprintf(&b, "(%d, %d, %d)", r.sig, r.acc, r.ref)
	}
	b.WriteString("]\n\nend OtelVerif.Gen.ScrapeSignal\n")
	fmt.Print(b.String())
}

func identName(e ast.Expr) string {
	if id, ok := e.(*ast.Ident); ok {
		return id.Name
	}
	return ""
}

func litVal(e ast.Expr) string {
	if bl, ok := e.(*ast.BasicLit); ok {
		return bl.Value
	}
	return ""
}
