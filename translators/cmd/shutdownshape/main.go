// shutdownshape regenerates lean/OtelVerif/Gen/ShutdownShape.lean from the non-test Go files of otelcol/:
// for every `close(<x>.shutdownChan)` it records whether a second, concurrent close can panic the caller, i.e.
// whether the call is protected by one of the two mechanisms that make a double close safe:
//   - a `defer func() { ... recover() ... }()` earlier in the SAME function (the panic of the close is recovered), or
//   - the call sits inside the func literal passed to `<x>.<f>.Do(...)` where field <f> of Collector is a sync.Once.
// Only this shape fact is extracted (data, no control flow). A non-atomic "peek then close" is NOT a protection.
// Exit 2 if (*Collector).Shutdown or any close of shutdownChan can no longer be found ("the tie no longer checks").
package main

import (
	"fmt"
	"go/ast"
	"go/parser"
	"go/token"
	"os"
	"path/filepath"
	"sort"
	"strings"
)

func die(format string, a ...any) {
	fmt.Fprintf(os.Stderr, "shutdownshape: "+format+"\n", a...)
	os.Exit(2)
}

// isCloseOfShutdownChan: close(<expr>.shutdownChan)
func isCloseOfShutdownChan(c *ast.CallExpr) bool {
	id, ok := c.Fun.(*ast.Ident)
	if !ok || id.Name != "close" || len(c.Args) != 1 {
		return false
	}
	sel, ok := c.Args[0].(*ast.SelectorExpr)
	return ok && sel.Sel.Name == "shutdownChan"
}

func containsRecover(n ast.Node) bool {
	found := false
	ast.Inspect(n, func(x ast.Node) bool {
		if c, ok := x.(*ast.CallExpr); ok {
			if id, ok := c.Fun.(*ast.Ident); ok && id.Name == "recover" && len(c.Args) == 0 {
				found = true
			}
		}
		return true
	})
	return found
}

type closeSite struct {
	fn        string
	pos       token.Position
	mechanism string // defer-recover | sync.Once | none
}

func main() {
	repo := os.Args[1]
	dir := filepath.Join(repo, "otelcol")
	ents, err := os.ReadDir(dir)
	if err != nil {
		die("%v", err)
	}
	fset := token.NewFileSet()
	var files []*ast.File
	for _, e := range ents {
		n := e.Name()
		if e.IsDir() || !strings.HasSuffix(n, ".go") || strings.HasSuffix(n, "_test.go") {
			continue
		}
		f, err := parser.ParseFile(fset, filepath.Join(dir, n), nil, 0)
		if err != nil {
			die("%v", err)
		}
		files = append(files, f)
	}
	// fields of Collector whose type is sync.Once / *sync.Once
	onceFields := map[string]bool{}
	for _, f := range files {
		ast.Inspect(f, func(x ast.Node) bool {
			ts, ok := x.(*ast.TypeSpec)
			if !ok || ts.Name.Name != "Collector" {
				return true
			}
			st, ok := ts.Type.(*ast.StructType)
			if !ok {
				return true
			}
			for _, fld := range st.Fields.List {
				t := fld.Type
				if s, ok := t.(*ast.StarExpr); ok {
					t = s.X
				}
				if sel, ok := t.(*ast.SelectorExpr); ok && sel.Sel.Name == "Once" {
					if pk, ok := sel.X.(*ast.Ident); ok && pk.Name == "sync" {
						for _, nm := range fld.Names {
							onceFields[nm.Name] = true
						}
					}
				}
			}
			return true
		})
	}
	var sites []closeSite
	haveShutdown := false
	for _, f := range files {
		for _, d := range f.Decls {
			fd, ok := d.(*ast.FuncDecl)
			if !ok || fd.Body == nil {
				continue
			}
			name := fd.Name.Name
			if fd.Recv != nil && len(fd.Recv.List) == 1 {
				t := fd.Recv.List[0].Type
				if s, ok := t.(*ast.StarExpr); ok {
					t = s.X
				}
				if id, ok := t.(*ast.Ident); ok {
					name = id.Name + "." + name
				}
			}
			if name == "Collector.Shutdown" {
				haveShutdown = true
			}
			// walk with a stack of enclosing function bodies (FuncDecl body, then nested FuncLits)
			type frame struct {
				body     ast.Node
				inOnceDo bool
			}
			var walk func(n ast.Node, fr frame)
			walk = func(n ast.Node, fr frame) {
				ast.Inspect(n, func(x ast.Node) bool {
					switch v := x.(type) {
					case *ast.CallExpr:
						// <x>.<onceField>.Do(func() {...})
						if sel, ok := v.Fun.(*ast.SelectorExpr); ok && sel.Sel.Name == "Do" && len(v.Args) == 1 {
							if inner, ok := sel.X.(*ast.SelectorExpr); ok && onceFields[inner.Sel.Name] {
								if fl, ok := v.Args[0].(*ast.FuncLit); ok {
									walk(fl.Body, frame{fl.Body, true})
									return false
								}
							}
						}
						if isCloseOfShutdownChan(v) {
							mech := "none"
							if fr.inOnceDo {
								mech = "sync.Once"
							} else {
								// a deferred recover earlier in the same function body (not inside a nested func literal)
								ast.Inspect(fr.body, func(y ast.Node) bool {
									if _, ok := y.(*ast.FuncLit); ok && y != fr.body {
										if ds, isDefer := deferOf[y.(*ast.FuncLit)]; isDefer {
											if ds.Pos() < v.Pos() && containsRecover(y) {
												mech = "defer-recover"
											}
										}
										return false
									}
									return true
								})
							}
							sites = append(sites, closeSite{name, fset.Position(v.Pos()), mech})
						}
					case *ast.FuncLit:
						if v.Body != fr.body {
							walk(v.Body, frame{v.Body, false})
							return false
						}
					}
					return true
				})
			}
			indexDefers(fd.Body)
			walk(fd.Body, frame{fd.Body, false})
		}
	}
	if !haveShutdown {
		die("method (*Collector).Shutdown not found in %s", dir)
	}
	if len(sites) == 0 {
		die("no close(<x>.shutdownChan) found in %s", dir)
	}
	sort.Slice(sites, func(i, j int) bool { return sites[i].pos.String() < sites[j].pos.String() })
	protected := 0
	mechs := map[string]bool{}
	for _, s := range sites {
		if s.mechanism != "none" {
			protected++
		}
		mechs[s.mechanism] = true
	}
	var ms []string
	for m := range mechs {
		ms = append(ms, m)
	}
	sort.Strings(ms)
	fmt.Println("/-! GENERATED by translators/cmd/shutdownshape from the non-test files of otelcol/ — do not edit.")
	fmt.Println("Shape fact: is every `close(<x>.shutdownChan)` protected against a concurrent second close")
	fmt.Println("(deferred `recover()` earlier in the same function, or inside `sync.Once.Do`)? -/")
	fmt.Println("namespace OtelVerif.Gen.ShutdownShape")
	fmt.Println()
	fmt.Println("/-- (function, mechanism) of every `close(<x>.shutdownChan)` -/")
	fmt.Print("def closeSites : List (String × String) := [")
	for i, s := range sites {
		if i > 0 {
			fmt.Print(", ")
		}
		fmt.Printf("(%q, %q)", s.fn, s.mechanism)
	}
	fmt.Println("]")
	fmt.Println()
	fmt.Printf("def closeCalls : Nat := %d\n", len(sites))
	fmt.Printf("def closeProtected : Nat := %d\n", protected)
	fmt.Printf("def mechanisms : List String := [%s]\n", quoteAll(ms))
	fmt.Println()
	fmt.Println("/-- a second close of the shutdown channel cannot panic its caller -/")
	fmt.Printf("def closeRecovered : Bool := %v\n", protected == len(sites))
	fmt.Println()
	fmt.Println("end OtelVerif.Gen.ShutdownShape")
}

func quoteAll(a []string) string {
	var q []string
	for _, s := range a {
		q = append(q, fmt.Sprintf("%q", s))
	}
	return strings.Join(q, ", ")
}

// deferOf: func literal -> the defer statement that calls it directly (`defer func(){...}()`)
var deferOf = map[*ast.FuncLit]*ast.DeferStmt{}

func indexDefers(n ast.Node) {
	ast.Inspect(n, func(x ast.Node) bool {
		if ds, ok := x.(*ast.DeferStmt); ok {
			if fl, ok := ds.Call.Fun.(*ast.FuncLit); ok {
				deferOf[fl] = ds
			}
		}
		return true
	})
}
