// sigdup regenerates lean/OtelVerif/Gen/SigDup.lean: the PER-SIGNAL DUPLICATES of the helper packages, normalised.
//
// The collector's helpers exist once per signal as copy-and-edit duplicates (logs / metrics / traces / profiles).  For every family
// of duplicates below the translator renders the control skeleton of each member (one token per assignment, call, if, return, defer,
// go — in source order, calls before the statement that contains them), alpha-renames the function's LOCAL identifiers to v0, v1, …
// (order of first occurrence) and replaces every other identifier / string literal that mentions a signal noun by a placeholder
// «0», «1», … (order of first occurrence), recording the replaced words.  Emitted per family: the normalised skeleton of each member
// and its word list.  Lean (Model/C19SigDup.lean, Lemmas/C19SigDup.lean) then proves that the members of a family have THE SAME
// normalised skeleton and that each member's words are the words of ITS OWN signal (item-count method, instruments, signal constant,
// consumer method) — up to a short explicit list of recorded quirks.  A change to one duplicate only (count taken after the call, a
// foreign signal's instrument or End*Op, MetricCount for DataPointCount …) breaks those theorems.
//
// Families:
//	procNew      processor/processorhelper/{logs,metrics,traces}.go  New<S>                     (counts in/out, recordInOut, forward)
//	procProfiles processor/processorhelper/xprocessorhelper/profiles.go NewProfiles             (emitted alone: it records nothing)
//	scrapeWrap   scraper/scraperhelper/obs_{metrics,logs}.go          wrapObs<S>                 (scraped / errored per scraper)
//	scrapeCtl    scraper/scraperhelper/controller.go                  scrape<S>                  (receiver op around one scrape)
//	obsConsume   service/internal/obsconsumer/{logs,metrics,traces,profiles}.go  Consume<S>      (pipeline item counters)
//	recvStart / recvEnd  receiver/receiverhelper/obsreport.go         Start<S>Op / End<S>Op
//	expRequest   exporter/exporterhelper/{logs,metrics,traces}.go New<S>Request, xexporterhelper/profiles.go NewProfilesRequestExporter
//	expConsume   … newConsume<S>                                                                (converter -> Send)
//	reqItems / reqOnError  … <S>Request.ItemsCount / OnError                                     (the count the exporter counters use; partial-failure narrowing)
//
// Signal codes 0 = traces, 1 = metrics, 2 = logs, 3 = profiles.  Exit 2 on a missing function or unknown syntax.
package main

import (
	"fmt"
	"go/ast"
	"go/parser"
	"go/token"
	"os"
	"path/filepath"
	"regexp"
	"strings"
)

func die(format string, a ...any) {
	fmt.Fprintf(os.Stderr, "sigdup: "+format+"\n", a...)
	os.Exit(2)
}

var noun = regexp.MustCompile(`(?i)(log|metric|data_?point|trace|span|profile|sample)`)

// experimental twins of stable packages: same role
var xpkg = map[string]string{"xpipeline": "pipeline", "xconsumer": "consumer", "xconsumererror": "consumererror", "xexporter": "exporter", "xprocessor": "processor", "xreceiver": "receiver"}

type norm struct {
	lo, hi token.Pos
	locals map[*ast.Object]int
	words  map[string]int
	list   []string
	where  string
}

func (n *norm) ident(id *ast.Ident) string {
	if id.Obj != nil && id.Obj.Pos() >= n.lo && id.Obj.Pos() <= n.hi {
		k, ok := n.locals[id.Obj]
		if !ok {
			k = len(n.locals)
			n.locals[id.Obj] = k
		}
		return fmt.Sprintf("v%d", k)
	}
	if st, ok := xpkg[id.Name]; ok && id.Obj == nil {
		return st
	}
	return n.word(id.Name)
}

// the payload field of the per-signal request structs
var payloadField = map[string]bool{"ld": true, "md": true, "td": true, "pd": true}

func (n *norm) word(w string) string {
	if payloadField[w] {
		return "payload"
	}
	if !noun.MatchString(w) {
		return w
	}
	k, ok := n.words[w]
	if !ok {
		k = len(n.list)
		n.words[w] = k
		n.list = append(n.list, w)
	}
	return fmt.Sprintf("«%d»", k)
}

func (n *norm) exprs(es []ast.Expr) string {
	s := make([]string, len(es))
	for i, e := range es {
		s[i] = n.expr(e)
	}
	return strings.Join(s, ",")
}

func (n *norm) expr(e ast.Expr) string {
	switch x := e.(type) {
	case nil:
		return ""
	case *ast.Ident:
		return n.ident(x)
	case *ast.BasicLit:
		if x.Kind == token.STRING {
			return n.word("'" + strings.Trim(x.Value, "\"`") + "'")
		}
		return x.Value
	case *ast.SelectorExpr:
		return n.expr(x.X) + "." + n.word(x.Sel.Name)
	case *ast.CallExpr:
		ell := ""
		if x.Ellipsis != token.NoPos {
			ell = "..."
		}
		return n.expr(x.Fun) + "(" + n.exprs(x.Args) + ell + ")"
	case *ast.BinaryExpr:
		return n.expr(x.X) + x.Op.String() + n.expr(x.Y)
	case *ast.UnaryExpr:
		return x.Op.String() + n.expr(x.X)
	case *ast.StarExpr:
		return "*" + n.expr(x.X)
	case *ast.ParenExpr:
		return "(" + n.expr(x.X) + ")"
	case *ast.FuncLit:
		return "func"
	case *ast.IndexExpr:
		return n.expr(x.X) + "[" + n.expr(x.Index) + "]"
	case *ast.CompositeLit:
		parts := make([]string, len(x.Elts))
		for i, el := range x.Elts {
			parts[i] = n.expr(el)
		}
		return n.expr(x.Type) + "{" + strings.Join(parts, ",") + "}"
	case *ast.KeyValueExpr:
		key := ""
		if id, ok := x.Key.(*ast.Ident); ok {
			key = n.word(id.Name) // field name
		} else {
			key = n.expr(x.Key)
		}
		return key + ":" + n.expr(x.Value)
	case *ast.TypeAssertExpr:
		return n.expr(x.X) + ".(" + n.expr(x.Type) + ")"
	case *ast.ArrayType:
		return "[]" + n.expr(x.Elt)
	case *ast.Ellipsis:
		return "..."
	}
	die("%s: unknown expression form %T", n.where, e)
	return ""
}

func (n *norm) skeleton(body ast.Node) []string {
	var out []string
	var walk func(ast.Node) bool
	walk = func(nd ast.Node) bool {
		switch x := nd.(type) {
		case *ast.ReturnStmt:
			for _, r := range x.Results {
				ast.Inspect(r, walk)
			}
			out = append(out, "return:"+n.exprs(x.Results))
			return false
		case *ast.IfStmt:
			if x.Init != nil {
				ast.Inspect(x.Init, walk)
			}
			ast.Inspect(x.Cond, walk)
			out = append(out, "if:"+n.expr(x.Cond))
			ast.Inspect(x.Body, walk)
			if x.Else != nil {
				out = append(out, "else")
				ast.Inspect(x.Else, walk)
			}
			return false
		case *ast.DeferStmt:
			out = append(out, "defer")
		case *ast.BranchStmt:
			out = append(out, "branch:"+x.Tok.String())
		case *ast.GoStmt:
			out = append(out, "go")
		case *ast.ForStmt, *ast.RangeStmt:
			out = append(out, "loop")
		case *ast.SwitchStmt, *ast.TypeSwitchStmt, *ast.SelectStmt:
			out = append(out, "switch")
		case *ast.CaseClause:
			out = append(out, "case:"+n.exprs(x.List))
		case *ast.AssignStmt:
			for _, r := range x.Rhs {
				ast.Inspect(r, walk)
			}
			out = append(out, "assign:"+n.exprs(x.Lhs)+x.Tok.String()+n.exprs(x.Rhs))
			return false
		case *ast.DeclStmt:
			if gd, ok := x.Decl.(*ast.GenDecl); ok {
				for _, sp := range gd.Specs {
					if vs, ok := sp.(*ast.ValueSpec); ok {
						names := make([]string, len(vs.Names))
						for i, id := range vs.Names {
							names[i] = n.ident(id)
						}
						out = append(out, "var:"+strings.Join(names, ",")+" "+n.expr(vs.Type))
					}
				}
			}
			return false
		case *ast.CallExpr:
			// arguments first (they are evaluated first), function literals in the arguments are descended into afterwards
			for _, a := range x.Args {
				if _, isLit := a.(*ast.FuncLit); !isLit {
					ast.Inspect(a, walk)
				}
			}
			ast.Inspect(x.Fun, walk)
			out = append(out, "call:"+n.expr(x))
			for _, a := range x.Args {
				if fl, isLit := a.(*ast.FuncLit); isLit {
					out = append(out, "funclit{")
					n.params(fl.Type)
					ast.Inspect(fl.Body, walk)
					out = append(out, "}")
				}
			}
			return false
		case *ast.FuncLit:
			out = append(out, "funclit{")
			n.params(x.Type)
			ast.Inspect(x.Body, walk)
			out = append(out, "}")
			return false
		}
		return true
	}
	ast.Inspect(body, walk)
	return out
}

// number the parameters in declaration order (so that v-numbers do not depend on which parameter is used first)
func (n *norm) params(ft *ast.FuncType) {
	for _, fl := range []*ast.FieldList{ft.Params, ft.Results} {
		if fl == nil {
			continue
		}
		for _, f := range fl.List {
			for _, id := range f.Names {
				if id.Name != "_" {
					n.ident(id)
				}
			}
		}
	}
}

func recvName(fd *ast.FuncDecl) string {
	if fd.Recv == nil || len(fd.Recv.List) == 0 {
		return ""
	}
	t := fd.Recv.List[0].Type
	for {
		switch x := t.(type) {
		case *ast.StarExpr:
			t = x.X
		case *ast.IndexExpr:
			t = x.X
		case *ast.Ident:
			return x.Name
		default:
			return ""
		}
	}
}

var files = map[string]*ast.File{}

func parse(repo, rel string) *ast.File {
	if f, ok := files[rel]; ok {
		return f
	}
	f, err := parser.ParseFile(token.NewFileSet(), filepath.Join(repo, rel), nil, 0)
	if err != nil {
		die("%v", err)
	}
	files[rel] = f
	return f
}

type member struct {
	sig        int
	file, name string // name = "Func" or "Recv.Method"
}

func render(repo string, m member) (sk, words []string) {
	f := parse(repo, m.file)
	recv, fn := "", m.name
	if i := strings.Index(m.name, "."); i >= 0 {
		recv, fn = m.name[:i], m.name[i+1:]
	}
	for _, d := range f.Decls {
		fd, ok := d.(*ast.FuncDecl)
		if !ok || fd.Name.Name != fn || fd.Body == nil || recvName(fd) != recv {
			continue
		}
		n := &norm{lo: fd.Pos(), hi: fd.End(), locals: map[*ast.Object]int{}, words: map[string]int{}, where: m.file + ":" + m.name}
		if fd.Recv != nil {
			for _, fl := range fd.Recv.List {
				for _, id := range fl.Names {
					n.ident(id)
				}
			}
		}
		n.params(fd.Type)
		return n.skeleton(fd.Body), n.list
	}
	die("%s: func %s not found", m.file, m.name)
	return nil, nil
}

func lit(ss []string) string {
	q := make([]string, len(ss))
	for i, s := range ss {
		s = strings.ReplaceAll(s, "\\", "/")
		s = strings.ReplaceAll(s, "\"", "'")
		s = strings.ReplaceAll(s, "\n", " ")
		q[i] = "\"" + s + "\""
	}
	return "[" + strings.Join(q, ", ") + "]"
}

func main() {
	if len(os.Args) < 2 {
		die("usage: sigdup <repo>")
	}
	repo := os.Args[1]
	ph, sh, oc, rh, eh := "processor/processorhelper/", "scraper/scraperhelper/", "service/internal/obsconsumer/", "receiver/receiverhelper/", "exporter/exporterhelper/"
	fams := []struct {
		name, doc string
		ms        []member
	}{
		{"procNew", "processorhelper.New<S>", []member{{2, ph + "logs.go", "NewLogs"}, {1, ph + "metrics.go", "NewMetrics"}, {0, ph + "traces.go", "NewTraces"}}},
		{"procProfiles", "xprocessorhelper.NewProfiles (alone: records nothing)", []member{{3, ph + "xprocessorhelper/profiles.go", "NewProfiles"}}},
		{"scrapeWrap", "scraperhelper.wrapObs<S>", []member{{1, sh + "obs_metrics.go", "wrapObsMetrics"}, {2, sh + "obs_logs.go", "wrapObsLogs"}}},
		{"scrapeCtl", "scraperhelper controller scrape<S>", []member{{1, sh + "controller.go", "scrapeMetrics"}, {2, sh + "controller.go", "scrapeLogs"}}},
		{"obsConsume", "obsconsumer Consume<S>", []member{{2, oc + "logs.go", "logs.ConsumeLogs"}, {1, oc + "metrics.go", "metrics.ConsumeMetrics"},
			{0, oc + "traces.go", "traces.ConsumeTraces"}, {3, oc + "profiles.go", "profiles.ConsumeProfiles"}}},
		{"recvStart", "receiverhelper Start<S>Op", []member{{0, rh + "obsreport.go", "ObsReport.StartTracesOp"}, {1, rh + "obsreport.go", "ObsReport.StartMetricsOp"}, {2, rh + "obsreport.go", "ObsReport.StartLogsOp"}}},
		{"recvEnd", "receiverhelper End<S>Op", []member{{0, rh + "obsreport.go", "ObsReport.EndTracesOp"}, {1, rh + "obsreport.go", "ObsReport.EndMetricsOp"}, {2, rh + "obsreport.go", "ObsReport.EndLogsOp"}}},
		{"expRequest", "exporterhelper New<S>Request / xexporterhelper.NewProfilesRequest", []member{{2, eh + "logs.go", "NewLogsRequest"}, {1, eh + "metrics.go", "NewMetricsRequest"},
			{0, eh + "traces.go", "NewTracesRequest"}, {3, eh + "xexporterhelper/profiles.go", "NewProfilesRequest"}}},
		{"expConsume", "exporterhelper newConsume<S>", []member{{2, eh + "logs.go", "newConsumeLogs"}, {1, eh + "metrics.go", "newConsumeMetrics"},
			{0, eh + "traces.go", "newConsumeTraces"}, {3, eh + "xexporterhelper/profiles.go", "newConsumeProfiles"}}},
		{"reqItems", "exporterhelper <S>Request.ItemsCount (what obsReportSender / obsQueue count)", []member{{2, eh + "logs.go", "logsRequest.ItemsCount"}, {1, eh + "metrics.go", "metricsRequest.ItemsCount"},
			{0, eh + "traces.go", "tracesRequest.ItemsCount"}, {3, eh + "xexporterhelper/profiles.go", "profilesRequest.ItemsCount"}}},
		{"reqOnError", "exporterhelper <S>Request.OnError (partial failure: the retry carries the undelivered part)", []member{{2, eh + "logs.go", "logsRequest.OnError"}, {1, eh + "metrics.go", "metricsRequest.OnError"},
			{0, eh + "traces.go", "tracesRequest.OnError"}, {3, eh + "xexporterhelper/profiles.go", "profilesRequest.OnError"}}},
	}
	fmt.Println("/- GENERATED by /verif/translators/cmd/sigdup from the per-signal duplicates of processorhelper, xprocessorhelper, scraperhelper,")
	fmt.Println("   obsconsumer, receiverhelper, exporterhelper and xexporterhelper — do not edit.  Signal codes: 0 = traces, 1 = metrics, 2 = logs, 3 = profiles.")
	fmt.Println("   Per family: (signal, normalised control skeleton) and (signal, the signal-specific words behind the placeholders «k», in order). -/")
	fmt.Println("namespace OtelVerif.Gen.SigDup")
	for _, fam := range fams {
		var sks, wds, cds []string
		for _, m := range fam.ms {
			sk, w := render(repo, m)
			sks = append(sks, fmt.Sprintf("(%d, %s)", m.sig, lit(sk)))
			wds = append(wds, fmt.Sprintf("(%d, %s)", m.sig, lit(w)))
			cs := make([]string, len(w))
			for i, word := range w {
				var ns []string
				for _, r := range word {
					ns = append(ns, fmt.Sprint(int(r)))
				}
				cs[i] = "[" + strings.Join(ns, ",") + "]"
			}
			cds = append(cds, fmt.Sprintf("(%d, [%s])", m.sig, strings.Join(cs, ", ")))
		}
		fmt.Printf("\n/-- %s: normalised skeletons -/\ndef %sNorm : List (Nat × List String) :=\n  [%s]\n", fam.doc, fam.name, strings.Join(sks, ",\n   "))
		fmt.Printf("\n/-- %s: words behind the placeholders -/\ndef %sWords : List (Nat × List String) :=\n  [%s]\n", fam.doc, fam.name, strings.Join(wds, ",\n   "))
		fmt.Printf("\n/-- the same words as lists of character codes (what the Lean checks compute on) -/\ndef %sWordCodes : List (Nat × List (List Nat)) :=\n  [%s]\n", fam.name, strings.Join(cds, ",\n   "))
	}
	fmt.Println("\nend OtelVerif.Gen.SigDup")
}
