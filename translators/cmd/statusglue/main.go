// statusglue regenerates lean/OtelVerif/Gen/StatusGlue.lean: the STATUS-REPORT SKELETON of the glue code around the reporter,
// as data interpreted by the Lean model (Model/C11Sys.lean):
//   service/internal/graph/graph.go      StartAll / ShutdownAll   (loop body: reports before the call, error branch + how it leaves, reports after)
//   service/extensions/extensions.go     Start / Shutdown         (same; plus whether Shutdown walks the list backwards)
//   service/service.go                   Start / Shutdown         (order of the extension / pipeline layers; abort on error)
//   internal/sharedcomponent/sharedcomponent.go  Component.Start / Shutdown (statement order inside the once bodies, reported statuses)
// stdlib only (go/ast). Exit 2 = the source no longer has a shape this translator understands.
package main

import (
	"fmt"
	"go/ast"
	"go/parser"
	"go/token"
	"os"
	"path/filepath"
	"strings"
)

var leanName = map[string]string{
	"StatusNone": "none", "StatusStarting": "starting", "StatusOK": "ok",
	"StatusRecoverableError": "recoverable", "StatusPermanentError": "permanent",
	"StatusFatalError": "fatal", "StatusStopping": "stopping", "StatusStopped": "stopped",
}

func die(format string, a ...any) {
	fmt.Fprintf(os.Stderr, "statusglue: "+format+"\n", a...)
	os.Exit(2)
}

func parse(path string) *ast.File {
	f, err := parser.ParseFile(token.NewFileSet(), path, nil, 0)
	if err != nil {
		die("%v", err)
	}
	return f
}

func selName(e ast.Expr) string {
	switch x := e.(type) {
	case *ast.SelectorExpr:
		return x.Sel.Name
	case *ast.Ident:
		return x.Name
	case *ast.IndexExpr:
		return selName(x.X)
	}
	return ""
}

func recvName(fd *ast.FuncDecl) string {
	if fd.Recv == nil || len(fd.Recv.List) != 1 {
		return ""
	}
	t := fd.Recv.List[0].Type
	if st, ok := t.(*ast.StarExpr); ok {
		t = st.X
	}
	return selName(t)
}

func findMethod(f *ast.File, recv, name string) *ast.FuncDecl {
	for _, d := range f.Decls {
		if fd, ok := d.(*ast.FuncDecl); ok && fd.Name.Name == name && recvName(fd) == recv && fd.Body != nil {
			return fd
		}
	}
	die("method (%s).%s not found", recv, name)
	return nil
}

// eventStatus: componentstatus.NewEvent(componentstatus.StatusX) | NewPermanentErrorEvent(err) | …
func eventStatus(e ast.Expr, where string) string {
	call, ok := e.(*ast.CallExpr)
	if !ok {
		die("%s: status event is not built by a constructor call", where)
	}
	switch selName(call.Fun) {
	case "NewEvent":
		if len(call.Args) != 1 {
			die("%s: NewEvent with %d args", where, len(call.Args))
		}
		n, ok := leanName[selName(call.Args[0])]
		if !ok {
			die("%s: NewEvent(%s): not a status constant", where, selName(call.Args[0]))
		}
		return n
	case "NewPermanentErrorEvent":
		return "permanent"
	case "NewRecoverableErrorEvent":
		return "recoverable"
	case "NewFatalErrorEvent":
		return "fatal"
	}
	die("%s: unknown event constructor %s", where, selName(call.Fun))
	return ""
}

// mentions: does the node contain a call of one of the named methods/functions?
func mentions(n ast.Node, names ...string) bool {
	hit := false
	ast.Inspect(n, func(x ast.Node) bool {
		if call, ok := x.(*ast.CallExpr); ok {
			for _, nm := range names {
				if selName(call.Fun) == nm {
					hit = true
				}
			}
		}
		return true
	})
	return hit
}

// a status action of the graph / extensions loops: "GAct.rep St.x" or "GAct.okIf"; "" = not a status statement
func loopAct(st ast.Stmt, where string) string {
	es, ok := st.(*ast.ExprStmt)
	if !ok {
		return ""
	}
	call, ok := es.X.(*ast.CallExpr)
	if !ok {
		return ""
	}
	switch selName(call.Fun) {
	case "ReportStatus":
		if len(call.Args) != 2 || selName(call.Args[0]) != "instanceID" {
			die("%s: ReportStatus is not called as ReportStatus(instanceID, <event>)", where)
		}
		return "GAct.rep St." + eventStatus(call.Args[1], where)
	case "ReportOKIfStarting":
		if len(call.Args) != 1 || selName(call.Args[0]) != "instanceID" {
			die("%s: ReportOKIfStarting is not called as ReportOKIfStarting(instanceID)", where)
		}
		return "GAct.okIf"
	}
	return ""
}

type skel struct {
	pre, onErr, post []string
	exit             string
	hostWrapped      bool
	backwards        bool
}

// loopSkeleton: the loop of fd whose body calls <x>.<callee>(…) in the init of an if statement
func loopSkeleton(fd *ast.FuncDecl, callee, where string) skel {
	var body *ast.BlockStmt
	backwards := false
	count := 0
	ast.Inspect(fd.Body, func(n ast.Node) bool {
		var b *ast.BlockStmt
		bw := false
		switch x := n.(type) {
		case *ast.RangeStmt:
			b = x.Body
		case *ast.ForStmt:
			b = x.Body
			if inc, ok := x.Post.(*ast.IncDecStmt); ok && inc.Tok == token.DEC {
				bw = true
			}
		}
		if b == nil {
			return true
		}
		for _, st := range b.List {
			if is, ok := st.(*ast.IfStmt); ok && is.Init != nil && mentions(is.Init, callee) {
				body, backwards = b, bw
				count++
			}
		}
		return true
	})
	if count != 1 {
		die("%s: expected exactly one loop with `if err := x.%s(…); err != nil`, found %d", where, callee, count)
	}
	sk := skel{backwards: backwards}
	seenCall := false
	for _, st := range body.List {
		if is, ok := st.(*ast.IfStmt); ok && is.Init != nil && mentions(is.Init, callee) {
			if seenCall {
				die("%s: %s called twice in the loop body", where, callee)
			}
			seenCall = true
			as, ok := is.Init.(*ast.AssignStmt)
			if !ok || len(as.Lhs) != 1 || len(as.Rhs) != 1 || is.Else != nil {
				die("%s: unexpected shape of the %s call statement", where, callee)
			}
			call, ok := as.Rhs[0].(*ast.CallExpr)
			if !ok || selName(call.Fun) != callee {
				die("%s: the if-init is not a plain call of %s", where, callee)
			}
			cond, ok := is.Cond.(*ast.BinaryExpr)
			if !ok || cond.Op != token.NEQ || selName(cond.X) != selName(as.Lhs[0]) || selName(cond.Y) != "nil" {
				die("%s: the condition is not `%s != nil`", where, selName(as.Lhs[0]))
			}
			if callee == "Start" {
				if len(call.Args) != 2 {
					die("%s: Start with %d args", where, len(call.Args))
				}
				switch a := call.Args[1].(type) {
				case *ast.Ident:
					sk.hostWrapped = false
				case *ast.UnaryExpr:
					cl, ok := a.X.(*ast.CompositeLit)
					if !ok || a.Op != token.AND || selName(cl.Type) != "HostWrapper" {
						die("%s: Start is handed an unknown host expression", where)
					}
					okID := false
					for _, e := range cl.Elts {
						if kv, ok := e.(*ast.KeyValueExpr); ok && selName(kv.Key) == "InstanceID" && selName(kv.Value) == "instanceID" {
							okID = true
						}
					}
					if !okID {
						die("%s: HostWrapper literal without InstanceID: instanceID", where)
					}
					sk.hostWrapped = true
				default:
					die("%s: Start is handed an unknown host expression", where)
				}
			}
			if len(is.Body.List) == 0 {
				die("%s: empty error branch", where)
			}
			for i, bs := range is.Body.List {
				if a := loopAct(bs, where); a != "" {
					sk.onErr = append(sk.onErr, a)
					continue
				}
				last := i == len(is.Body.List)-1
				switch x := bs.(type) {
				case *ast.ReturnStmt:
					if !last {
						die("%s: return in the middle of the error branch", where)
					}
					sk.exit = "GExit.ret"
				case *ast.BranchStmt:
					if !last || x.Tok != token.CONTINUE {
						die("%s: unexpected branch statement in the error branch", where)
					}
					sk.exit = "GExit.cont"
				default:
					if mentions(bs, "ReportStatus", "ReportOKIfStarting", "Start", "Shutdown") {
						die("%s: status call nested inside the error branch", where)
					}
				}
			}
			if sk.exit == "" {
				die("%s: the error branch neither returns nor continues", where)
			}
			continue
		}
		if a := loopAct(st, where); a != "" {
			if seenCall {
				sk.post = append(sk.post, a)
			} else {
				sk.pre = append(sk.pre, a)
			}
			continue
		}
		if mentions(st, "ReportStatus", "ReportOKIfStarting", "Start", "Shutdown") {
			die("%s: status report or component call in an unexpected statement", where)
		}
	}
	return sk
}

func leanList(l []string) string { return "[" + strings.Join(l, ", ") + "]" }

func (s skel) lean() string {
	return fmt.Sprintf("{ pre := %s, onErr := %s, exit := %s, post := %s, hostWrapped := %v }", leanList(s.pre), leanList(s.onErr), s.exit, leanList(s.post), s.hostWrapped)
}

// serviceLayers: the order in which fd calls srv.host.ServiceExtensions.<extM> and srv.host.Pipelines.<pipeM>; for Start each
// call must be `if err := …; err != nil { return … }`
func serviceLayers(fd *ast.FuncDecl, extM, pipeM string, mustAbort bool, where string) []string {
	var out []string
	for _, st := range fd.Body.List {
		is, ok := st.(*ast.IfStmt)
		if !ok || is.Init == nil {
			if mentions(st, extM, pipeM) {
				// `Start`/`Shutdown` are common names: only calls on ServiceExtensions / Pipelines count
				hit := false
				ast.Inspect(st, func(n ast.Node) bool {
					if call, ok := n.(*ast.CallExpr); ok {
						if se, ok := call.Fun.(*ast.SelectorExpr); ok && (se.Sel.Name == extM || se.Sel.Name == pipeM) {
							if r := selName(se.X); r == "ServiceExtensions" || r == "Pipelines" {
								hit = true
							}
						}
					}
					return true
				})
				if hit {
					die("%s: layer call outside an `if err := …` statement", where)
				}
			}
			continue
		}
		as, ok := is.Init.(*ast.AssignStmt)
		if !ok || len(as.Rhs) != 1 {
			continue
		}
		call, ok := as.Rhs[0].(*ast.CallExpr)
		if !ok {
			continue
		}
		se, ok := call.Fun.(*ast.SelectorExpr)
		if !ok {
			continue
		}
		layer := ""
		switch {
		case selName(se.X) == "ServiceExtensions" && se.Sel.Name == extM:
			layer = "GLayer.extensions"
		case selName(se.X) == "Pipelines" && se.Sel.Name == pipeM:
			layer = "GLayer.pipelines"
		default:
			continue
		}
		_, returns := is.Body.List[len(is.Body.List)-1].(*ast.ReturnStmt)
		if returns != mustAbort {
			die("%s: %s: error branch returns=%v, expected %v", where, layer, returns, mustAbort)
		}
		out = append(out, layer)
	}
	if len(out) != 2 || out[0] == out[1] {
		die("%s: expected one extensions call and one pipelines call, got %v", where, out)
	}
	return out
}

// onceBody: the func literal handed to c.<once>.Do in fd
func onceBody(fd *ast.FuncDecl, once, where string) *ast.BlockStmt {
	var body *ast.BlockStmt
	n := 0
	ast.Inspect(fd.Body, func(x ast.Node) bool {
		call, ok := x.(*ast.CallExpr)
		if !ok || selName(call.Fun) != "Do" {
			return true
		}
		se := call.Fun.(*ast.SelectorExpr)
		if selName(se.X) != once || len(call.Args) != 1 {
			return true
		}
		fl, ok := call.Args[0].(*ast.FuncLit)
		if !ok {
			die("%s: %s.Do argument is not a func literal", where, once)
		}
		body = fl.Body
		n++
		return true
	})
	if n != 1 {
		die("%s: expected exactly one %s.Do(func(){…})", where, once)
	}
	return body
}

// wrapperReport: c.hostWrapper.Report(<event>) -> status name, "" otherwise
func wrapperReport(st ast.Stmt, where string) string {
	es, ok := st.(*ast.ExprStmt)
	if !ok {
		return ""
	}
	call, ok := es.X.(*ast.CallExpr)
	if !ok || selName(call.Fun) != "Report" || len(call.Args) != 1 {
		return ""
	}
	if se, ok := call.Fun.(*ast.SelectorExpr); !ok || selName(se.X) != "hostWrapper" {
		return ""
	}
	return eventStatus(call.Args[0], where)
}

func isNilCheck(e ast.Expr, name string, op token.Token) bool {
	b, ok := e.(*ast.BinaryExpr)
	return ok && b.Op == op && selName(b.X) == name && selName(b.Y) == "nil"
}

func main() {
	repo := os.Args[1]
	gf := parse(filepath.Join(repo, "service/internal/graph/graph.go"))
	ef := parse(filepath.Join(repo, "service/extensions/extensions.go"))
	sf := parse(filepath.Join(repo, "service/service.go"))
	hf := parse(filepath.Join(repo, "internal/sharedcomponent/sharedcomponent.go"))

	gStart := loopSkeleton(findMethod(gf, "Graph", "StartAll"), "Start", "graph.StartAll")
	gStop := loopSkeleton(findMethod(gf, "Graph", "ShutdownAll"), "Shutdown", "graph.ShutdownAll")
	eStart := loopSkeleton(findMethod(ef, "Extensions", "Start"), "Start", "extensions.Start")
	eStop := loopSkeleton(findMethod(ef, "Extensions", "Shutdown"), "Shutdown", "extensions.Shutdown")
	if gStart.backwards || gStop.backwards || eStart.backwards {
		die("a loop other than extensions.Shutdown walks its list backwards")
	}
	// graph.HostWrapper.Report: host.Reporter.ReportStatus(host.InstanceID, event)
	hw := findMethod(gf, "HostWrapper", "Report")
	okHW := false
	if len(hw.Body.List) == 1 {
		if es, ok := hw.Body.List[0].(*ast.ExprStmt); ok {
			if call, ok := es.X.(*ast.CallExpr); ok && selName(call.Fun) == "ReportStatus" && len(call.Args) == 2 && selName(call.Args[0]) == "InstanceID" {
				okHW = true
			}
		}
	}
	if !okHW {
		die("graph.HostWrapper.Report is no longer `host.Reporter.ReportStatus(host.InstanceID, event)`")
	}
	svcStart := serviceLayers(findMethod(sf, "Service", "Start"), "Start", "StartAll", true, "service.Start")
	svcStop := serviceLayers(findMethod(sf, "Service", "Shutdown"), "Shutdown", "ShutdownAll", false, "service.Shutdown")

	// ---- sharedcomponent.Component.Start
	st := findMethod(hf, "Component", "Start")
	// { if c.hostWrapper == nil { var err error; c.startOnce.Do(…); return err }; x, ok := host.(Reporter); if ok { addSource }; return nil }
	if len(st.Body.List) != 4 {
		die("sharedcomponent Start: expected 4 top-level statements, got %d", len(st.Body.List))
	}
	first, ok := st.Body.List[0].(*ast.IfStmt)
	if !ok || !isNilCheck(first.Cond, "hostWrapper", token.EQL) || first.Else != nil {
		die("sharedcomponent Start: first statement is not `if c.hostWrapper == nil {…}`")
	}
	if _, ok := first.Body.List[len(first.Body.List)-1].(*ast.ReturnStmt); !ok {
		die("sharedcomponent Start: the first-start branch does not return")
	}
	if _, ok := st.Body.List[1].(*ast.AssignStmt); !ok || !mentionsTypeAssert(st.Body.List[1]) {
		die("sharedcomponent Start: second statement is not the Reporter type assertion")
	}
	if !isAttach(st.Body.List[2]) {
		die("sharedcomponent Start: third statement is not `if isStatusReporter { c.hostWrapper.addSource(…) }`")
	}
	if _, ok := st.Body.List[3].(*ast.ReturnStmt); !ok {
		die("sharedcomponent Start: does not end with return")
	}
	ob := onceBody(st, "startOnce", "sharedcomponent Start")
	// once body: assign hostWrapper; type assertion; attach; Report(…)*; if err = c.component.Start(ctx, c.hostWrapper); err != nil { Report(…)* }
	var startPre, startErr []string
	stage := 0
	for _, s := range ob.List {
		switch {
		case stage == 0 && isAssignTo(s, "hostWrapper"):
			stage = 1
		case stage == 1 && mentionsTypeAssert(s):
			stage = 2
		case stage == 2 && isAttach(s):
			stage = 3
		case stage == 3 && wrapperReport(s, "sharedcomponent Start") != "":
			startPre = append(startPre, "St."+wrapperReport(s, "sharedcomponent Start"))
		case stage == 3 && isInnerCall(s, "Start"):
			is := s.(*ast.IfStmt)
			call := is.Init.(*ast.AssignStmt).Rhs[0].(*ast.CallExpr)
			if len(call.Args) != 2 || selName(call.Args[1]) != "hostWrapper" {
				die("sharedcomponent Start: the inner component is not started with c.hostWrapper as its host")
			}
			for _, b := range is.Body.List {
				r := wrapperReport(b, "sharedcomponent Start")
				if r == "" {
					die("sharedcomponent Start: unexpected statement in the error branch of the inner Start")
				}
				startErr = append(startErr, "St."+r)
			}
			stage = 4
		default:
			die("sharedcomponent Start: unexpected statement (stage %d) in the startOnce body", stage)
		}
	}
	if stage != 4 {
		die("sharedcomponent Start: startOnce body incomplete (stage %d)", stage)
	}
	// ---- sharedcomponent.Component.Shutdown
	sd := findMethod(hf, "Component", "Shutdown")
	sb := onceBody(sd, "stopOnce", "sharedcomponent Shutdown")
	// once body: if hw != nil { Report(…)* }; err = c.component.Shutdown(ctx); if hw != nil { if err != nil { Report* } else { Report* } }; c.removeFunc()
	var stopPre, stopErr, stopOk []string
	stage = 0
	for _, s := range sb.List {
		is, isIf := s.(*ast.IfStmt)
		switch {
		case stage == 0 && isIf && isNilCheck(is.Cond, "hostWrapper", token.NEQ) && is.Else == nil:
			for _, b := range is.Body.List {
				r := wrapperReport(b, "sharedcomponent Shutdown")
				if r == "" {
					die("sharedcomponent Shutdown: unexpected statement before the inner Shutdown")
				}
				stopPre = append(stopPre, "St."+r)
			}
			stage = 1
		case stage == 1 && !isIf && mentions(s, "Shutdown"):
			as, ok := s.(*ast.AssignStmt)
			if !ok || len(as.Lhs) != 1 || selName(as.Lhs[0]) != "err" {
				die("sharedcomponent Shutdown: the inner Shutdown's result is not assigned to err")
			}
			stage = 2
		case stage == 2 && isIf && isNilCheck(is.Cond, "hostWrapper", token.NEQ) && is.Else == nil:
			if len(is.Body.List) != 1 {
				die("sharedcomponent Shutdown: unexpected shape after the inner Shutdown")
			}
			inner, ok := is.Body.List[0].(*ast.IfStmt)
			if !ok || !isNilCheck(inner.Cond, "err", token.NEQ) || inner.Else == nil {
				die("sharedcomponent Shutdown: no `if err != nil {…} else {…}` after the inner Shutdown")
			}
			for _, b := range inner.Body.List {
				r := wrapperReport(b, "sharedcomponent Shutdown")
				if r == "" {
					die("sharedcomponent Shutdown: unexpected statement in the error branch")
				}
				stopErr = append(stopErr, "St."+r)
			}
			eb, ok := inner.Else.(*ast.BlockStmt)
			if !ok {
				die("sharedcomponent Shutdown: else-if after the inner Shutdown")
			}
			for _, b := range eb.List {
				r := wrapperReport(b, "sharedcomponent Shutdown")
				if r == "" {
					die("sharedcomponent Shutdown: unexpected statement in the success branch")
				}
				stopOk = append(stopOk, "St."+r)
			}
			stage = 3
		case stage == 3 && !mentions(s, "Report", "Shutdown", "Start"):
			// c.removeFunc()
		default:
			die("sharedcomponent Shutdown: unexpected statement (stage %d) in the stopOnce body", stage)
		}
	}
	if stage != 3 {
		die("sharedcomponent Shutdown: stopOnce body incomplete (stage %d)", stage)
	}
	// hostWrapper.Report: `if len(h.sources) > 0 { remember }` then `for _, s := range h.sources { s.Report(e) }`;
	// addSource: previousEvents.Do(replay) then append — statement ORDER is what the model relies on
	// The lock statements are reported as DATA (wrapperLocked), the rest of the shape is required.
	rp := findMethod(hf, "hostWrapper", "Report")
	ad := findMethod(hf, "hostWrapper", "addSource")
	wrapperLocked := true
	body := func(fd *ast.FuncDecl, name string) []ast.Stmt {
		l := fd.Body.List
		if len(l) >= 2 && isLock(l[0]) && isDeferUnlock(l[1]) {
			l = l[2:]
		} else {
			wrapperLocked = false
		}
		for _, st := range l {
			ast.Inspect(st, func(n ast.Node) bool {
				switch x := n.(type) {
				case *ast.GoStmt:
					wrapperLocked = false
				case *ast.CallExpr:
					switch selName(x.Fun) {
					case "Lock", "Unlock", "RLock", "RUnlock", "TryLock":
						wrapperLocked = false
					}
				}
				return true
			})
		}
		if len(l) != 2 {
			die("hostWrapper.%s: expected two statements besides Lock / defer Unlock, got %d", name, len(l))
		}
		return l
	}
	rb := body(rp, "Report")
	if _, ok := rb[0].(*ast.IfStmt); !ok {
		die("hostWrapper.Report: no `if len(h.sources) > 0 {remember}` guard before the fan-out")
	}
	if rs, ok := rb[1].(*ast.RangeStmt); !ok || selName(rs.X) != "sources" || !mentions(rs.Body, "Report") {
		die("hostWrapper.Report: the last statement is not the fan-out loop over h.sources")
	}
	ab := body(ad, "addSource")
	if !mentions(ab[0], "Do") || !mentions(ab[1], "append") {
		die("hostWrapper.addSource no longer has the shape {previousEvents.Do(replay); sources = append(sources, s)}")
	}

	var b strings.Builder
	b.WriteString("/- GENERATED by /verif/translators/cmd/statusglue from /repo — do not edit. -/\n")
	b.WriteString("import OtelVerif.Model.C11Types\nnamespace OtelVerif.Gen.StatusGlue\nopen OtelVerif.C11\n\n")
	fmt.Fprintf(&b, "/-- loop body of `Graph.StartAll` (service/internal/graph/graph.go) -/\ndef graphStart : LoopSkel := %s\n\n", gStart.lean())
	fmt.Fprintf(&b, "/-- loop body of `Graph.ShutdownAll` -/\ndef graphStop : LoopSkel := %s\n\n", gStop.lean())
	fmt.Fprintf(&b, "/-- loop body of `Extensions.Start` (service/extensions/extensions.go) -/\ndef extStart : LoopSkel := %s\n\n", eStart.lean())
	fmt.Fprintf(&b, "/-- loop body of `Extensions.Shutdown` -/\ndef extStop : LoopSkel := %s\n\n", eStop.lean())
	fmt.Fprintf(&b, "/-- `Extensions.Shutdown` walks `extensionIDs` backwards -/\ndef extStopBackwards : Bool := %v\n\n", eStop.backwards)
	fmt.Fprintf(&b, "/-- `Service.Start` (service/service.go): layers in call order, each `if err != nil { return }` -/\ndef serviceStart : List GLayer := %s\n\n", leanList(svcStart))
	fmt.Fprintf(&b, "/-- `Service.Shutdown`: layers in call order, errors collected -/\ndef serviceStop : List GLayer := %s\n\n", leanList(svcStop))
	fmt.Fprintf(&b, "/-- `sharedcomponent.Component.Start`, startOnce body (after creating the wrapper and attaching the first host): statuses reported\nthrough the wrapper before the inner `Start`, and in its error branch -/\ndef sharedStartPre : List St := %s\ndef sharedStartErr : List St := %s\n\n", leanList(startPre), leanList(startErr))
	fmt.Fprintf(&b, "/-- `sharedcomponent.Component.Shutdown`, stopOnce body: before the inner `Shutdown` / error branch / success branch (each only `if c.hostWrapper != nil`) -/\ndef sharedStopPre : List St := %s\ndef sharedStopErr : List St := %s\ndef sharedStopOk : List St := %s\n\n", leanList(stopPre), leanList(stopErr), leanList(stopOk))
	fmt.Fprintf(&b, "/-- `hostWrapper.Report` and `hostWrapper.addSource` both begin with `h.lock.Lock(); defer h.lock.Unlock()`, release the lock nowhere\nelse and start no goroutine -/\ndef wrapperLocked : Bool := %v\n\nend OtelVerif.Gen.StatusGlue\n", wrapperLocked)
	fmt.Print(b.String())
}

func mentionsTypeAssert(n ast.Node) bool {
	hit := false
	ast.Inspect(n, func(x ast.Node) bool {
		if ta, ok := x.(*ast.TypeAssertExpr); ok && selName(ta.Type) == "Reporter" {
			hit = true
		}
		return true
	})
	return hit
}

// if isStatusReporter { c.hostWrapper.addSource(statusReporter) }
func isAttach(s ast.Stmt) bool {
	is, ok := s.(*ast.IfStmt)
	if !ok || is.Init != nil || is.Else != nil || len(is.Body.List) != 1 {
		return false
	}
	if _, ok := is.Cond.(*ast.Ident); !ok {
		return false
	}
	es, ok := is.Body.List[0].(*ast.ExprStmt)
	if !ok {
		return false
	}
	call, ok := es.X.(*ast.CallExpr)
	return ok && selName(call.Fun) == "addSource"
}

func isAssignTo(s ast.Stmt, field string) bool {
	as, ok := s.(*ast.AssignStmt)
	return ok && len(as.Lhs) == 1 && selName(as.Lhs[0]) == field
}

// if err = c.component.<m>(…); err != nil { … }
func isInnerCall(s ast.Stmt, m string) bool {
	is, ok := s.(*ast.IfStmt)
	if !ok || is.Init == nil || is.Else != nil {
		return false
	}
	as, ok := is.Init.(*ast.AssignStmt)
	if !ok || len(as.Rhs) != 1 {
		return false
	}
	call, ok := as.Rhs[0].(*ast.CallExpr)
	if !ok || selName(call.Fun) != m {
		return false
	}
	se, ok := call.Fun.(*ast.SelectorExpr)
	return ok && selName(se.X) == "component" && isNilCheck(is.Cond, "err", token.NEQ)
}

func isLock(s ast.Stmt) bool {
	es, ok := s.(*ast.ExprStmt)
	if !ok {
		return false
	}
	call, ok := es.X.(*ast.CallExpr)
	return ok && selName(call.Fun) == "Lock"
}

func isDeferUnlock(s ast.Stmt) bool {
	ds, ok := s.(*ast.DeferStmt)
	return ok && selName(ds.Call.Fun) == "Unlock"
}
