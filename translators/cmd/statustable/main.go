// statustable regenerates lean/OtelVerif/Gen/StatusTable.lean from
//   service/internal/status/status.go   (the map literal in newFSM)
//   component/componentstatus/status.go (the Status const block: name -> iota)
//   internal/sharedcomponent/sharedcomponent.go (ring.New(n))
// Only data is extracted. If the source no longer has the expected shape the program exits 2
// ("the tie no longer checks").
package main

import (
	"fmt"
	"go/ast"
	"go/parser"
	"go/token"
	"os"
	"path/filepath"
	"sort"
	"strings"
)

var leanName = map[string]string{
	"StatusNone": "none", "StatusStarting": "starting", "StatusOK": "ok",
	"StatusRecoverableError": "recoverable", "StatusPermanentError": "permanent",
	"StatusFatalError": "fatal", "StatusStopping": "stopping", "StatusStopped": "stopped",
}

func die(format string, a ...any) {
	fmt.Fprintf(os.Stderr, "statustable: "+format+"\n", a...)
	os.Exit(2)
}

func parse(path string) *ast.File {
	f, err := parser.ParseFile(token.NewFileSet(), path, nil, 0)
	if err != nil {
		die("%v", err)
	}
	return f
}

func selName(e ast.Expr) string {
	switch x := e.(type) {
	case *ast.SelectorExpr:
		return x.Sel.Name
	case *ast.Ident:
		return x.Name
	}
	return ""
}

// findMethod: method `name` whose receiver type is *recv or recv
func findMethod(f *ast.File, recv, name string) *ast.FuncDecl {
	for _, d := range f.Decls {
		fd, ok := d.(*ast.FuncDecl)
		if !ok || fd.Name.Name != name || fd.Recv == nil || len(fd.Recv.List) != 1 {
			continue
		}
		t := fd.Recv.List[0].Type
		if st, ok := t.(*ast.StarExpr); ok {
			t = st.X
		}
		if id, ok := t.(*ast.Ident); ok && id.Name == recv {
			return fd
		}
	}
	return nil
}

func isMuCall(e ast.Expr, method string) bool {
	call, ok := e.(*ast.CallExpr)
	if !ok || len(call.Args) != 0 {
		return false
	}
	se, ok := call.Fun.(*ast.SelectorExpr)
	if !ok || se.Sel.Name != method {
		return false
	}
	return selName(se.X) == "mu"
}

// lockShape: body = { r.mu.Lock(); defer r.mu.Unlock(); ... } with no other (R)Unlock call and no go statement
func lockShape(fd *ast.FuncDecl) bool {
	l := fd.Body.List
	if len(l) < 3 {
		return false
	}
	es, ok := l[0].(*ast.ExprStmt)
	if !ok || !isMuCall(es.X, "Lock") {
		return false
	}
	ds, ok := l[1].(*ast.DeferStmt)
	if !ok || !isMuCall(ds.Call, "Unlock") {
		return false
	}
	good := true
	for _, st := range l[2:] {
		ast.Inspect(st, func(n ast.Node) bool {
			switch x := n.(type) {
			case *ast.GoStmt:
				good = false
			case *ast.CallExpr:
				if se, ok := x.Fun.(*ast.SelectorExpr); ok {
					switch se.Sel.Name {
					case "Unlock", "RUnlock", "Lock", "RLock", "TryLock":
						good = false
					}
				}
			}
			return true
		})
	}
	return good
}

func main() {
	repo := os.Args[1]
	// 1. const order
	cf := parse(filepath.Join(repo, "component/componentstatus/status.go"))
	var order []string
	for _, d := range cf.Decls {
		gd, ok := d.(*ast.GenDecl)
		if !ok || gd.Tok != token.CONST {
			continue
		}
		first, ok := gd.Specs[0].(*ast.ValueSpec)
		if !ok || first.Type == nil || selName(first.Type) != "Status" {
			continue
		}
		if len(first.Values) != 1 || selName(first.Values[0]) != "iota" {
			die("Status const block does not start with iota")
		}
		for _, s := range gd.Specs {
			vs := s.(*ast.ValueSpec)
			if len(vs.Names) != 1 || (vs != first && (vs.Type != nil || len(vs.Values) != 0)) {
				die("unexpected shape in Status const block at %s", vs.Names[0].Name)
			}
			order = append(order, vs.Names[0].Name)
		}
	}
	if len(order) == 0 {
		die("Status const block not found")
	}
	for _, n := range order {
		if _, ok := leanName[n]; !ok {
			die("unknown status constant %s", n)
		}
	}
	if len(order) != len(leanName) {
		die("status constants changed: %v", order)
	}
	// 2. the transition map literal
	sf := parse(filepath.Join(repo, "service/internal/status/status.go"))
	table := map[string][]string{}
	var keys []string
	found := false
	ast.Inspect(sf, func(n ast.Node) bool {
		fd, ok := n.(*ast.FuncDecl)
		if !ok || fd.Name.Name != "newFSM" {
			return true
		}
		ast.Inspect(fd, func(n ast.Node) bool {
			kv, ok := n.(*ast.KeyValueExpr)
			if !ok || selName(kv.Key) != "transitions" {
				return true
			}
			lit, ok := kv.Value.(*ast.CompositeLit)
			if !ok {
				die("transitions is not a composite literal")
			}
			found = true
			for _, e := range lit.Elts {
				row, ok := e.(*ast.KeyValueExpr)
				if !ok {
					die("transitions row is not key: value")
				}
				from := selName(row.Key)
				if _, ok := leanName[from]; !ok {
					die("unknown row key %q", from)
				}
				if _, dup := table[from]; dup {
					die("duplicate row %s", from)
				}
				inner, ok := row.Value.(*ast.CompositeLit)
				if !ok {
					die("row %s is not a composite literal", from)
				}
				tos := []string{}
				for _, ie := range inner.Elts {
					ikv, ok := ie.(*ast.KeyValueExpr)
					if !ok {
						die("row %s: entry is not key: value", from)
					}
					to := selName(ikv.Key)
					if _, ok := leanName[to]; !ok {
						die("unknown target %q in row %s", to, from)
					}
					tos = append(tos, to)
				}
				table[from] = tos
				keys = append(keys, from)
			}
			return false
		})
		return false
	})
	if !found {
		die("newFSM transitions literal not found")
	}
	// 3. shape of transition(): lookup m.transitions[m.current.Status()][ev.Status()], then assign + callback.
	shapeOK := false
	ast.Inspect(sf, func(n ast.Node) bool {
		fd, ok := n.(*ast.FuncDecl)
		if !ok || fd.Name.Name != "transition" || fd.Body == nil || len(fd.Body.List) != 4 {
			return true
		}
		_, a := fd.Body.List[0].(*ast.IfStmt)
		_, b := fd.Body.List[1].(*ast.AssignStmt)
		_, c := fd.Body.List[2].(*ast.ExprStmt)
		_, d := fd.Body.List[3].(*ast.ReturnStmt)
		shapeOK = a && b && c && d
		return false
	})
	if !shapeOK {
		die("fsm.transition no longer has the shape {if !ok {return err}; m.current = ev; m.onTransition(ev); return nil}")
	}
	// 3b. the critical section: both reporter methods begin with `r.mu.Lock(); defer r.mu.Unlock()`, release the lock nowhere
	// else and start no goroutine; the watcher callback is called synchronously (fsm.transition -> m.onTransition(ev) ->
	// the func literal given to newFSM in componentFSM -> r.onStatusChange(id, ev)).  Reported as DATA (false = shape lost):
	// the Lean theorem about the sub-step model then no longer checks and the harness's interleaving search looks for a witness.
	reporterLocked := true
	for _, name := range []string{"ReportStatus", "ReportOKIfStarting"} {
		fd := findMethod(sf, "reporter", name)
		if fd == nil || fd.Body == nil {
			die("method (*reporter).%s not found", name)
		}
		if !lockShape(fd) {
			reporterLocked = false
		}
	}
	callbackSync := false
	if fd := findMethod(sf, "fsm", "transition"); fd != nil && fd.Body != nil && len(fd.Body.List) == 4 {
		if es, ok := fd.Body.List[2].(*ast.ExprStmt); ok {
			if call, ok := es.X.(*ast.CallExpr); ok && selName(call.Fun) == "onTransition" {
				callbackSync = true
			}
		}
	}
	if fd := findMethod(sf, "reporter", "componentFSM"); fd == nil || fd.Body == nil {
		die("method (*reporter).componentFSM not found")
	} else {
		lits := 0
		ast.Inspect(fd, func(n ast.Node) bool {
			if _, isGo := n.(*ast.GoStmt); isGo {
				callbackSync = false
			}
			call, ok := n.(*ast.CallExpr)
			if !ok || selName(call.Fun) != "newFSM" {
				return true
			}
			if len(call.Args) != 1 {
				die("newFSM call in componentFSM does not take one argument")
			}
			fl, ok := call.Args[0].(*ast.FuncLit)
			if !ok {
				die("newFSM argument in componentFSM is not a func literal")
			}
			lits++
			okBody := false
			if len(fl.Body.List) == 1 {
				if es, ok := fl.Body.List[0].(*ast.ExprStmt); ok {
					if c2, ok := es.X.(*ast.CallExpr); ok && selName(c2.Fun) == "onStatusChange" {
						okBody = true
					}
				}
			}
			if !okBody {
				callbackSync = false
			}
			return true
		})
		if lits != 1 {
			die("componentFSM: expected exactly one newFSM(func literal)")
		}
	}
	// 4. ring capacity
	hf := parse(filepath.Join(repo, "internal/sharedcomponent/sharedcomponent.go"))
	ringCap := ""
	ast.Inspect(hf, func(n ast.Node) bool {
		call, ok := n.(*ast.CallExpr)
		if !ok {
			return true
		}
		if se, ok := call.Fun.(*ast.SelectorExpr); ok && se.Sel.Name == "New" && selName(se.X) == "ring" && len(call.Args) == 1 {
			if bl, ok := call.Args[0].(*ast.BasicLit); ok && bl.Kind == token.INT {
				if ringCap != "" {
					die("more than one ring.New")
				}
				ringCap = bl.Value
			}
		}
		return true
	})
	if ringCap == "" {
		die("ring.New(<int literal>) not found in sharedcomponent.go")
	}
	var b strings.Builder
	b.WriteString("/- GENERATED by /verif/translators/cmd/statustable from /repo — do not edit. -/\n")
	b.WriteString("import OtelVerif.Model.C11Types\nnamespace OtelVerif.Gen.StatusTable\nopen OtelVerif.C11\n\n")
	b.WriteString("/-- `transitions` map literal of `newFSM` (service/internal/status/status.go), rows in source order -/\n")
	b.WriteString("def table : List (St × List St) := [\n")
	for i, k := range keys {
		var tos []string
		for _, t := range table[k] {
			tos = append(tos, "St."+leanName[t])
		}
		sep := ","
		if i == len(keys)-1 {
			sep = ""
		}
		fmt.Fprintf(&b, "  (St.%s, [%s])%s\n", leanName[k], strings.Join(tos, ", "), sep)
	}
	b.WriteString("]\n\n/-- iota order of the Status constants (component/componentstatus/status.go) -/\ndef constOrder : List St := [")
	var os_ []string
	for _, n := range order {
		os_ = append(os_, "St."+leanName[n])
	}
	b.WriteString(strings.Join(os_, ", "))
	b.WriteString("]\n\n/-- `ring.New(n)` in internal/sharedcomponent/sharedcomponent.go -/\n")
	fmt.Fprintf(&b, "def ringCap : Nat := %s\n\n", ringCap)
	b.WriteString("/-- `reporter.ReportStatus` and `reporter.ReportOKIfStarting` both begin with `r.mu.Lock(); defer r.mu.Unlock()`, release the\nlock nowhere else and start no goroutine (service/internal/status/status.go) -/\n")
	fmt.Fprintf(&b, "def reporterLocked : Bool := %v\n\n", reporterLocked)
	b.WriteString("/-- the watcher callback runs synchronously inside the critical section: `fsm.transition` calls `m.onTransition(ev)` as a plain\nstatement and the func literal given to `newFSM` only calls `r.onStatusChange(id, ev)` -/\n")
	fmt.Fprintf(&b, "def callbackSync : Bool := %v\n\nend OtelVerif.Gen.StatusTable\n", callbackSync)
	_ = sort.Strings
	fmt.Print(b.String())
}
