// hooks.go — TRANSLATION (not a fingerprint) of the three component-level `Unmarshal(*confmap.Conf)` methods into the
// `Hook` language of Model/C13Faithful.lean, with relative key paths. Go field chains (`cfg.HTTP.TracesURLPath`) are
// resolved to mapstructure key paths through the struct declarations and tags of the same package (promotion through
// embedded fields, `,squash`), and every `conf.IsSet(K)` guard must guard the field that has key K. Statement shapes:
//
//	if err := conf.Unmarshal(cfg); err != nil { return err }      | err := conf.Unmarshal(cfg); if err != nil { return err }      the generic decode (exactly once)
//	if conf.IsSet(K) { cfg.F = <call>(); cfg.F.X = <lit>; cfg.unexported = <lit> }                       before the decode:  resetWhenSet K      (key(F) = K)
//	if conf.IsSet(K) { cfg.unexported = <lit>; if !conf.IsSet(K2) { cfg.D = cfg.S } }                    after the decode:   aliasIfUnset K K2   (key(S) = K, key(D) = K2)
//	if !conf.IsSet(K) { cfg.F = nil } [else { var err error; if cfg.P, err = sanitizeURLPath(cfg.P); err != nil { return err } … }]
//	                                                                                                    after the decode:   dropUnset K (key(F) = K) [+ normalizes key(P) …]
//	return nil
//
// Anything else is exit 2. Consecutive hooks of one kind are merged (dropUnset [a], dropUnset [b] -> dropUnset [a, b]).
package main

import (
	"fmt"
	"go/ast"
	"go/parser"
	"go/token"
	"os"
	"path/filepath"
	"reflect"
	"strconv"
	"strings"
)

type gopkg struct {
	structs map[string]*ast.StructType
	consts  map[string]string
}

func loadPkg(dir string) *gopkg {
	p := &gopkg{structs: map[string]*ast.StructType{}, consts: map[string]string{}}
	ents, err := os.ReadDir(dir)
	if err != nil {
		die("%v", err)
	}
	for _, e := range ents {
		n := e.Name()
		if e.IsDir() || !strings.HasSuffix(n, ".go") || strings.HasSuffix(n, "_test.go") {
			continue
		}
		f, err := parser.ParseFile(token.NewFileSet(), filepath.Join(dir, n), nil, 0)
		if err != nil {
			die("%v", err)
		}
		for _, d := range f.Decls {
			gd, ok := d.(*ast.GenDecl)
			if !ok {
				continue
			}
			for _, s := range gd.Specs {
				switch x := s.(type) {
				case *ast.TypeSpec:
					if st, ok := x.Type.(*ast.StructType); ok {
						p.structs[x.Name.Name] = st
					}
				case *ast.ValueSpec:
					if gd.Tok != token.CONST {
						continue
					}
					for i, nm := range x.Names {
						if i < len(x.Values) {
							if l, ok := x.Values[i].(*ast.BasicLit); ok && l.Kind == token.STRING {
								v, _ := strconv.Unquote(l.Value)
								p.consts[nm.Name] = v
							}
						}
					}
				}
			}
		}
	}
	return p
}

// mapstructure tag of a field: (key, squash)
func msTag(f *ast.Field) (string, bool) {
	if f.Tag == nil {
		return "", false
	}
	raw, _ := strconv.Unquote(f.Tag.Value)
	t := reflect.StructTag(raw).Get("mapstructure")
	parts := strings.Split(t, ",")
	squash := false
	for _, o := range parts[1:] {
		if o == "squash" {
			squash = true
		}
	}
	return parts[0], squash
}

// the local struct type a field's type names (T or *T), "" if it is not a struct of this package
func localType(e ast.Expr) string {
	if s, ok := e.(*ast.StarExpr); ok {
		e = s.X
	}
	if id, ok := e.(*ast.Ident); ok {
		return id.Name
	}
	return ""
}

// key path of Go field `name` seen from struct `st` (promotion through embedded fields), and the field's local type
func (p *gopkg) field(st string, name string) (keys []string, typ string, ok bool) {
	s := p.structs[st]
	if s == nil {
		return nil, "", false
	}
	for _, f := range s.Fields.List {
		for _, n := range f.Names {
			if n.Name == name {
				k, sq := msTag(f)
				if sq {
					return []string{}, localType(f.Type), true
				}
				if k == "" {
					die("field %s.%s has no mapstructure key", st, name)
				}
				return []string{k}, localType(f.Type), true
			}
		}
	}
	for _, f := range s.Fields.List { // embedded
		if len(f.Names) != 0 {
			continue
		}
		et := localType(f.Type)
		if p.structs[et] == nil {
			continue
		}
		if ks, t, ok := p.field(et, name); ok {
			k, sq := msTag(f)
			if sq || k == "" {
				return ks, t, true
			}
			return append([]string{k}, ks...), t, true
		}
	}
	return nil, "", false
}

// `cfg.A.B` -> key path; exported reports whether every field of the chain is exported
func (p *gopkg) chain(recvType, recvVar string, e ast.Expr) (keys []string, exported bool, ok bool) {
	var names []string
	for {
		se, isSel := e.(*ast.SelectorExpr)
		if !isSel {
			break
		}
		names = append([]string{se.Sel.Name}, names...)
		e = se.X
	}
	if id, isID := e.(*ast.Ident); !isID || id.Name != recvVar || len(names) == 0 {
		return nil, false, false
	}
	st := recvType
	exported = true
	for i, n := range names {
		if !ast.IsExported(n) {
			if i != len(names)-1 || p.structs[st] == nil {
				return nil, false, false
			}
			return nil, false, true // an unexported field of the receiver: bookkeeping, no key
		}
		if p.structs[st] == nil { // a type of another package: the key is unknown, only "below the prefix" can be said
			keys = append(keys, "<"+n+">")
			st = ""
			continue
		}
		ks, t, found := p.field(st, n)
		if !found {
			die("field %s not found in struct %s", n, st)
		}
		keys = append(keys, ks...)
		st = t
	}
	return keys, exported, true
}

type hook struct {
	kind  string     // aliasIfUnset | dropUnset | resetWhenSet | normalizes
	paths [][]string // dropUnset, normalizes; resetWhenSet: one path
	src   string
	dst   string
}

func leanPath(p []string) string {
	qs := make([]string, len(p))
	for i, s := range p {
		qs[i] = strconv.Quote(s)
	}
	return "[" + strings.Join(qs, ", ") + "]"
}

func (h hook) lean() string {
	switch h.kind {
	case "aliasIfUnset":
		return fmt.Sprintf(".aliasIfUnset [] %q %q", h.src, h.dst)
	case "resetWhenSet":
		return ".resetWhenSet " + leanPath(h.paths[0])
	}
	ps := make([]string, len(h.paths))
	for i, p := range h.paths {
		ps[i] = leanPath(p)
	}
	return "." + h.kind + " [" + strings.Join(ps, ", ") + "]"
}

type utr struct {
	p        *gopkg
	recvType string
	recvVar  string
	confVar  string
}

// conf.IsSet(K) / !conf.IsSet(K) -> (key path, negated)
func (u *utr) isSet(e ast.Expr) ([]string, bool, bool) {
	neg := false
	if ue, ok := e.(*ast.UnaryExpr); ok && ue.Op == token.NOT {
		neg = true
		e = ue.X
	}
	c, ok := e.(*ast.CallExpr)
	if !ok || str(c.Fun) != u.confVar+".IsSet" || len(c.Args) != 1 {
		return nil, false, false
	}
	var k string
	switch a := c.Args[0].(type) {
	case *ast.BasicLit:
		k, _ = strconv.Unquote(a.Value)
	case *ast.Ident:
		v, ok := u.p.consts[a.Name]
		if !ok {
			die("IsSet argument %s is not a string constant of the package", a.Name)
		}
		k = v
	default:
		die("IsSet argument %s", str(a))
	}
	return strings.Split(k, "::"), neg, true
}

func isErrReturn(s ast.Stmt) bool {
	is, ok := s.(*ast.IfStmt)
	return ok && is.Init == nil && is.Else == nil && str(is.Cond) == "err != nil" && len(is.Body.List) == 1 && str(is.Body.List[0]) == "return err"
}

func eqPath(a, b []string) bool {
	for _, s := range append(append([]string{}, a...), b...) {
		if strings.HasPrefix(s, "<") {
			return false // unresolved segment: never equal
		}
	}
	return strings.Join(a, "\x00") == strings.Join(b, "\x00")
}

func resolved(a []string) bool {
	for _, s := range a {
		if strings.HasPrefix(s, "<") {
			return false
		}
	}
	return true
}

func isLit(e ast.Expr) bool {
	switch x := e.(type) {
	case *ast.BasicLit:
		return true
	case *ast.Ident:
		return x.Name == "true" || x.Name == "false"
	}
	return false
}

func (u *utr) translate(body *ast.BlockStmt) []hook {
	var hooks []hook
	decoded := false
	list := body.List
	if len(list) == 0 || str(list[len(list)-1]) != "return nil" {
		die("%s.Unmarshal does not end with `return nil`", u.recvType)
	}
	list = list[:len(list)-1]
	decodeCall := u.confVar + ".Unmarshal(" + u.recvVar + ")"
	for i := 0; i < len(list); i++ {
		s := list[i]
		// the generic decode
		if is, ok := s.(*ast.IfStmt); ok && is.Init != nil && str(is.Init) == "err := "+decodeCall && str(is.Cond) == "err != nil" &&
			is.Else == nil && len(is.Body.List) == 1 && str(is.Body.List[0]) == "return err" {
			if decoded {
				die("%s.Unmarshal decodes twice", u.recvType)
			}
			decoded = true
			continue
		}
		if str(s) == "err := "+decodeCall && i+1 < len(list) && isErrReturn(list[i+1]) {
			if decoded {
				die("%s.Unmarshal decodes twice", u.recvType)
			}
			decoded = true
			i++
			continue
		}
		is, ok := s.(*ast.IfStmt)
		if !ok || is.Init != nil {
			die("%s.Unmarshal: unknown statement %s", u.recvType, str(s))
		}
		key, neg, ok := u.isSet(is.Cond)
		if !ok {
			die("%s.Unmarshal: unknown condition %s", u.recvType, str(is.Cond))
		}
		switch {
		case !neg && !decoded && is.Else == nil: // resetWhenSet
			reset := false
			for _, t := range is.Body.List {
				as, ok := t.(*ast.AssignStmt)
				if !ok || as.Tok != token.ASSIGN || len(as.Lhs) != 1 || len(as.Rhs) != 1 {
					die("%s.Unmarshal: unknown statement in a reset block: %s", u.recvType, str(t))
				}
				ks, exp, ok := u.p.chain(u.recvType, u.recvVar, as.Lhs[0])
				if !ok {
					die("%s.Unmarshal: unknown assignment target %s", u.recvType, str(as.Lhs[0]))
				}
				switch {
				case !exp && isLit(as.Rhs[0]): // bookkeeping flag
				case exp && eqPath(ks, key):
					if c, ok := as.Rhs[0].(*ast.CallExpr); !ok || len(c.Args) != 0 {
						die("%s.Unmarshal: reset value is not a constructor call: %s", u.recvType, str(as.Rhs[0]))
					}
					reset = true
				case exp && reset && len(ks) > len(key) && eqPath(ks[:len(key)], key) && isLit(as.Rhs[0]): // part of the fresh value
				default:
					die("%s.Unmarshal: assignment %s under IsSet(%s)", u.recvType, str(t), strings.Join(key, "::"))
				}
			}
			if !reset {
				die("%s.Unmarshal: IsSet(%s) block before the decode resets nothing", u.recvType, strings.Join(key, "::"))
			}
			hooks = append(hooks, hook{kind: "resetWhenSet", paths: [][]string{key}})
		case !neg && decoded && is.Else == nil: // aliasIfUnset
			found := false
			for _, t := range is.Body.List {
				if as, ok := t.(*ast.AssignStmt); ok && as.Tok == token.ASSIGN && len(as.Lhs) == 1 && len(as.Rhs) == 1 {
					if _, exp, ok := u.p.chain(u.recvType, u.recvVar, as.Lhs[0]); ok && !exp && isLit(as.Rhs[0]) {
						continue // bookkeeping flag
					}
				}
				in, ok := t.(*ast.IfStmt)
				if !ok || in.Init != nil || in.Else != nil || len(in.Body.List) != 1 || found {
					die("%s.Unmarshal: unknown statement under IsSet(%s): %s", u.recvType, strings.Join(key, "::"), str(t))
				}
				k2, neg2, ok := u.isSet(in.Cond)
				as, ok2 := in.Body.List[0].(*ast.AssignStmt)
				if !ok || !neg2 || !ok2 || as.Tok != token.ASSIGN || len(as.Lhs) != 1 || len(as.Rhs) != 1 {
					die("%s.Unmarshal: unknown alias form %s", u.recvType, str(in))
				}
				dk, dexp, ok3 := u.p.chain(u.recvType, u.recvVar, as.Lhs[0])
				sk, sexp, ok4 := u.p.chain(u.recvType, u.recvVar, as.Rhs[0])
				if !ok3 || !ok4 || !dexp || !sexp || !eqPath(dk, k2) || !eqPath(sk, key) || len(key) != 1 || len(k2) != 1 {
					die("%s.Unmarshal: alias %s does not copy the field of %s into the field of %s", u.recvType, str(as), strings.Join(key, "::"), strings.Join(k2, "::"))
				}
				hooks = append(hooks, hook{kind: "aliasIfUnset", src: key[0], dst: k2[0]})
				found = true
			}
			if !found {
				die("%s.Unmarshal: IsSet(%s) block after the decode without an alias", u.recvType, strings.Join(key, "::"))
			}
		case neg && decoded: // dropUnset [+ normalizes]
			if len(is.Body.List) != 1 {
				die("%s.Unmarshal: unknown drop block %s", u.recvType, str(is.Body))
			}
			as, ok := is.Body.List[0].(*ast.AssignStmt)
			if !ok || as.Tok != token.ASSIGN || len(as.Lhs) != 1 || len(as.Rhs) != 1 || str(as.Rhs[0]) != "nil" {
				die("%s.Unmarshal: unknown drop statement %s", u.recvType, str(is.Body.List[0]))
			}
			ks, exp, ok := u.p.chain(u.recvType, u.recvVar, as.Lhs[0])
			if !ok || !exp || !eqPath(ks, key) {
				die("%s.Unmarshal: !IsSet(%s) drops %s (key %s)", u.recvType, strings.Join(key, "::"), str(as.Lhs[0]), strings.Join(ks, "::"))
			}
			hooks = append(hooks, hook{kind: "dropUnset", paths: [][]string{key}})
			if is.Else != nil {
				eb, ok := is.Else.(*ast.BlockStmt)
				if !ok {
					die("%s.Unmarshal: unknown else %s", u.recvType, str(is.Else))
				}
				var norm [][]string
				for j, t := range eb.List {
					if j == 0 && str(t) == "var err error" {
						continue
					}
					in, ok := t.(*ast.IfStmt)
					if !ok || in.Init == nil || in.Else != nil || str(in.Cond) != "err != nil" || len(in.Body.List) != 1 || str(in.Body.List[0]) != "return err" {
						die("%s.Unmarshal: unknown statement in the else branch: %s", u.recvType, str(t))
					}
					ia, ok := in.Init.(*ast.AssignStmt)
					if !ok || ia.Tok != token.ASSIGN || len(ia.Lhs) != 2 || len(ia.Rhs) != 1 || str(ia.Lhs[1]) != "err" {
						die("%s.Unmarshal: unknown normalisation %s", u.recvType, str(in.Init))
					}
					c, ok := ia.Rhs[0].(*ast.CallExpr)
					if !ok || str(c.Fun) != "sanitizeURLPath" || len(c.Args) != 1 || str(c.Args[0]) != str(ia.Lhs[0]) {
						die("%s.Unmarshal: unknown normalisation %s", u.recvType, str(in.Init))
					}
					nk, nexp, ok := u.p.chain(u.recvType, u.recvVar, ia.Lhs[0])
					if !ok || !nexp || !resolved(nk) || len(nk) <= len(key) || !eqPath(nk[:len(key)], key) {
						die("%s.Unmarshal: normalised field %s is not below %s", u.recvType, str(ia.Lhs[0]), strings.Join(key, "::"))
					}
					norm = append(norm, nk)
				}
				if len(norm) > 0 {
					hooks = append(hooks, hook{kind: "normalizes", paths: norm})
				}
			}
		default:
			die("%s.Unmarshal: unknown statement %s", u.recvType, str(s))
		}
	}
	if !decoded {
		die("%s.Unmarshal never calls the generic decode", u.recvType)
	}
	// canonical form: hooks of one kind with path lists are merged, keeping first-occurrence order of the kinds
	var out []hook
	for _, h := range hooks {
		merged := false
		if h.kind == "dropUnset" || h.kind == "normalizes" {
			for i := range out {
				if out[i].kind == h.kind {
					out[i].paths = append(out[i].paths, h.paths...)
					merged = true
				}
			}
		}
		if !merged {
			out = append(out, h)
		}
	}
	return out
}

func translateHooks(repo string, name, file, recv string, fd *ast.FuncDecl) string {
	p := loadPkg(filepath.Dir(filepath.Join(repo, file)))
	if len(fd.Recv.List[0].Names) != 1 || len(fd.Type.Params.List) != 1 || len(fd.Type.Params.List[0].Names) != 1 {
		die("%s.Unmarshal: unnamed receiver or parameter", name)
	}
	u := &utr{p: p, recvType: recv, recvVar: fd.Recv.List[0].Names[0].Name, confVar: fd.Type.Params.List[0].Names[0].Name}
	hs := u.translate(fd.Body)
	ls := make([]string, len(hs))
	for i, h := range hs {
		ls[i] = h.lean()
	}
	return fmt.Sprintf("  (%q, [%s])", name, strings.Join(ls, ",\n      "))
}
