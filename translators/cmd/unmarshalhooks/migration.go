// migration.go — the field mapping of service/telemetry/internal/migration/v0.2.0.go as data: every assignment
// `v3.X = <expr>` and every composite-literal entry `X: <expr>` inside the `…V02ToV03` functions whose right-hand side is
// (a call / conversion / address of) a field selector: (function, destination field, source field). A v0.2.0-shaped
// telemetry section is converted field by field; the destination must take the source field OF THE SAME NAME
// (Props/C13.lean `C13_migration_fields_correspond`, decide over this list).
package main

import (
	"fmt"
	"go/ast"
	"go/parser"
	"go/token"
	"path/filepath"
	"strings"
)

// the field a value expression reads: unwrap &x, (x), f(x) / T(x) with one argument; a selector gives its last name
func srcField(e ast.Expr) string {
	for {
		switch x := e.(type) {
		case *ast.UnaryExpr:
			if x.Op != token.AND {
				return ""
			}
			e = x.X
		case *ast.ParenExpr:
			e = x.X
		case *ast.StarExpr:
			e = x.X
		case *ast.CallExpr:
			if len(x.Args) != 1 {
				return ""
			}
			e = x.Args[0]
		case *ast.SelectorExpr:
			return x.Sel.Name
		default:
			return ""
		}
	}
}

func migrationAssigns(repo string) string {
	f, err := parser.ParseFile(token.NewFileSet(), filepath.Join(repo, "service/telemetry/internal/migration/v0.2.0.go"), nil, 0)
	if err != nil {
		die("%v", err)
	}
	var rows []string
	n := 0
	for _, d := range f.Decls {
		fd, ok := d.(*ast.FuncDecl)
		if !ok || fd.Body == nil || !strings.HasSuffix(fd.Name.Name, "V02ToV03") {
			continue
		}
		n++
		ast.Inspect(fd.Body, func(nd ast.Node) bool {
			switch x := nd.(type) {
			case *ast.AssignStmt:
				if x.Tok == token.ASSIGN && len(x.Lhs) == 1 && len(x.Rhs) == 1 {
					if sel, ok := x.Lhs[0].(*ast.SelectorExpr); ok {
						if s := srcField(x.Rhs[0]); s != "" {
							rows = append(rows, fmt.Sprintf("(%q, %q, %q)", fd.Name.Name, sel.Sel.Name, s))
						}
					}
				}
			case *ast.KeyValueExpr:
				if k, ok := x.Key.(*ast.Ident); ok {
					if s := srcField(x.Value); s != "" {
						rows = append(rows, fmt.Sprintf("(%q, %q, %q)", fd.Name.Name, k.Name, s))
					}
				}
			}
			return true
		})
	}
	if n == 0 || len(rows) == 0 {
		die("no …V02ToV03 function / no field mapping found in migration/v0.2.0.go")
	}
	return fmt.Sprintf("/-- service/telemetry/internal/migration/v0.2.0.go: (function, destination field, source field) of every field-to-field\nassignment / composite-literal entry in the `…V02ToV03` functions -/\ndef migrationAssigns : List (String × String × String) := [\n  %s\n]\n", strings.Join(rows, ",\n  "))
}
