// validatewalk regenerates lean/OtelVerif/Gen/ValidateWalk.lean: a case-by-case TRANSLATION of the reflective walk
// `validate(v reflect.Value) []pathError` of confmap/xconfmap/config.go into the table language of
// Model/C13WalkTypes.lean: for every clause of its `switch v.Kind()` — the kinds, whether the value's own
// `Validate()` is called (and reported first), and how the walk descends (not at all | into the element | into the
// fields, skipping unexported ones, named by `fieldName` | into the elements, named by index | into map keys then map
// values, both named by `stringifyMapKey`). Model/C13Walk.lean interprets the table; Props/C13.lean proves the
// interpreter of the REGENERATED table equal to the hand model `validate`, so `C13_validate_complete` is about the
// walk as the source states it today. Any other statement shape is exit 2. stdlib only.
package main

import (
	"bytes"
	"fmt"
	"go/ast"
	"go/parser"
	"go/printer"
	"go/token"
	"os"
	"path/filepath"
	"strconv"
	"strings"
)

func die(format string, a ...any) {
	fmt.Fprintf(os.Stderr, "validatewalk: "+format+"\n", a...)
	os.Exit(2)
}

func str(n any) string {
	var b bytes.Buffer
	if err := printer.Fprint(&b, token.NewFileSet(), n); err != nil {
		die("%v", err)
	}
	return strings.Join(strings.Fields(b.String()), " ")
}

const (
	ownCall   = "err := callValidateIfPossible(v)"
	ownAppend = "if err != nil { errs = append(errs, pathError{err: err}) }"
	ownReturn = "if err != nil { return []pathError{{err: err}} }"
)

// `for _, err := range <src> { errs = append(errs, pathError{err: err.err, path: append(err.path, <seg>)}) }`
func relabel(s ast.Stmt, src, seg string) bool {
	want := fmt.Sprintf("for _, err := range %s { errs = append(errs, pathError{ err: err.err, path: append(err.path, %s), }) }", src, seg)
	want2 := fmt.Sprintf("for _, err := range %s { errs = append(errs, pathError{err: err.err, path: append(err.path, %s)}) }", src, seg)
	got := str(s)
	return got == want || got == want2
}

func main() {
	repo := os.Args[1]
	f, err := parser.ParseFile(token.NewFileSet(), filepath.Join(repo, "confmap/xconfmap/config.go"), nil, 0)
	if err != nil {
		die("%v", err)
	}
	var fd *ast.FuncDecl
	for _, d := range f.Decls {
		if x, ok := d.(*ast.FuncDecl); ok && x.Recv == nil && x.Name.Name == "validate" {
			fd = x
		}
	}
	if fd == nil {
		die("func validate not found")
	}
	if str(fd.Type) != "func(v reflect.Value) []pathError" {
		die("validate has signature %s", str(fd.Type))
	}
	if len(fd.Body.List) != 2 || str(fd.Body.List[0]) != "errs := []pathError{}" {
		die("validate: expected `errs := []pathError{}` and one switch")
	}
	sw, ok := fd.Body.List[1].(*ast.SwitchStmt)
	if !ok || sw.Init != nil || str(sw.Tag) != "v.Kind()" {
		die("validate: expected `switch v.Kind()`")
	}
	var cases []string
	for _, c := range sw.Body.List {
		cc := c.(*ast.CaseClause)
		var kinds []string
		for _, e := range cc.List {
			k := str(e)
			if !strings.HasPrefix(k, "reflect.") {
				die("unknown case label %s", k)
			}
			kinds = append(kinds, strconv.Quote(strings.TrimPrefix(k, "reflect.")))
		}
		if cc.List == nil {
			kinds = []string{strconv.Quote("default")}
		}
		body := cc.Body
		own, descend := false, ""
		ss := make([]string, len(body))
		for i, s := range body {
			ss[i] = str(s)
		}
		switch {
		case len(body) == 1 && ss[0] == "return nil":
			descend = ".none"
		case len(body) == 1 && ss[0] == "return validate(v.Elem())":
			descend = ".elem"
		case len(body) == 3 && ss[0] == ownCall && ss[1] == ownReturn && ss[2] == "return nil":
			own, descend = true, ".none"
		case len(body) >= 4 && ss[0] == ownCall && ss[1] == ownAppend && ss[len(body)-1] == "return errs":
			own = true
			mid := body[2 : len(body)-1]
			switch {
			case len(mid) == 1: // one counting loop
				fs, ok := mid[0].(*ast.ForStmt)
				if !ok || str(fs.Init) != "i := 0" || str(fs.Post) != "i++" {
					die("unknown loop in case %v: %s", kinds, str(mid[0]))
				}
				b := fs.Body.List
				switch str(fs.Cond) {
				case "i < v.NumField()":
					if len(b) != 5 || str(b[0]) != "if !v.Type().Field(i).IsExported() { continue }" || str(b[1]) != "field := v.Type().Field(i)" ||
						str(b[2]) != "path := fieldName(field)" || str(b[3]) != "subpathErrs := validate(v.Field(i))" || !relabel(b[4], "subpathErrs", "path") {
						die("unknown field loop: %s", str(fs))
					}
					descend = "(.fields true)"
				case "i < v.Len()":
					if len(b) != 2 || str(b[0]) != "subPathErrs := validate(v.Index(i))" || !relabel(b[1], "subPathErrs", "strconv.Itoa(i)") {
						die("unknown element loop: %s", str(fs))
					}
					descend = ".elems"
				default:
					die("unknown loop condition %s", str(fs.Cond))
				}
			case len(mid) == 2 && str(mid[0]) == "iter := v.MapRange()":
				fs, ok := mid[1].(*ast.ForStmt)
				if !ok || fs.Init != nil || fs.Post != nil || str(fs.Cond) != "iter.Next()" {
					die("unknown map loop: %s", str(mid[1]))
				}
				b := fs.Body.List
				if len(b) != 5 || str(b[0]) != "keyErrs := validate(iter.Key())" || str(b[1]) != "valueErrs := validate(iter.Value())" ||
					str(b[2]) != "key := stringifyMapKey(iter.Key())" {
					die("unknown map loop body: %s", str(fs))
				}
				switch {
				case relabel(b[3], "keyErrs", "key") && relabel(b[4], "valueErrs", "key"):
					descend = "(.keysVals true)"
				case relabel(b[3], "valueErrs", "key") && relabel(b[4], "keyErrs", "key"):
					descend = "(.keysVals false)"
				default:
					die("unknown map loop body: %s", str(fs))
				}
			default:
				die("unknown body in case %v", kinds)
			}
		default:
			die("unknown body in case %v: %s", kinds, strings.Join(ss, " ; "))
		}
		cases = append(cases, fmt.Sprintf("  { kinds := [%s], own := %v, descend := %s }", strings.Join(kinds, ", "), own, descend))
	}
	fmt.Printf("/- GENERATED by /verif/translators/cmd/validatewalk — do not edit. -/\nimport OtelVerif.Model.C13WalkTypes\nnamespace OtelVerif.Gen.ValidateWalk\nopen OtelVerif.C13\n\n")
	fmt.Printf("/-- confmap/xconfmap/config.go `validate`: the clauses of `switch v.Kind()`, in source order -/\ndef cases : List WalkCase := [\n%s\n]\n\nend OtelVerif.Gen.ValidateWalk\n", strings.Join(cases, ",\n"))
}
