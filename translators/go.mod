module verif/translators

go 1.23
